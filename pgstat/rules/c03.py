"""C03 - disorder values follow the definition (DESIGN 4/C03)."""
from __future__ import annotations

import ast
from typing import Optional

from ..core import Ctx
from ..model import body_stmts, canon, dotted, kwarg, norm, walk_no_nested
from . import ilp, nbk
from .c01 import rule_nullable_index
from .c04 import array_layout
from .common import assigned_value, backing_field, check_alignment_record, check_unitary_record, conditions_at, count_if, else_part, enclosing, expand_locals, prog, resolve_local, stores_to

AVG = "avg_num_annotations_per_annotator"


def _ret(f) -> Optional[ast.AST]:
    b = body_stmts(f.node)
    return b[0].value if len(b) == 1 and isinstance(b[0], ast.Return) else None


def rule_call_roles(ctx: Ctx):
    for m in ("compute_disorder", "valid_alignments"):
        nbk.check_entry(ctx, "R-C03-2", m)


def rule_alignment_level(ctx: Ctx):
    M = ctx.model
    # Alignment.disorder property
    f = ctx.fn("Alignment.disorder", "R-C03-3")
    sn = f.self_name
    DF = backing_field(M, "Alignment", "disorder", "_disorder")
    st = [s for s in walk_no_nested(f.node) if isinstance(s, ast.Assign) and norm(s.targets[0]) == f"{sn}.{DF}"]
    ok = False
    if len(st) == 1 and isinstance(st[0].value, ast.BinOp) and isinstance(st[0].value.op, ast.Div):
        num, den = st[0].value.left, st[0].value.right
        okn = isinstance(num, ast.Call) and dotted(num.func) in ("sum", "np.sum") and isinstance(num.args[0], (ast.GeneratorExp, ast.ListComp)) and \
            norm(num.args[0].generators[0].iter) in (f"{sn}.unitary_alignments", sn) and \
            norm(num.args[0].elt) == f"{norm(num.args[0].generators[0].target)}.disorder"
        ok = okn and norm(den) == f"{sn}.{AVG}"
    guard = any(isinstance(i, ast.If) and norm(i.test) == f"{sn}.{DF} is None" and any(st and st[0] is x for x in ast.walk(i)) for i in walk_no_nested(f.node))
    ctx.check(ok and guard, "R-C03-3", f, st[0] if st else None,
              "Alignment.disorder = sum of the unitary disorders / mean number of units per annotator (computed once when not cached)",
              bad_detail="Alignment.disorder is not sum(unitary disorders) / avg_num_annotations_per_annotator", key="Alignment.disorder")
    for qn in ("Alignment.compute_disorder", "SoftAlignment.compute_disorder"):
        g = ctx.fn(qn, "R-C03-3")
        gs = g.self_name
        dp = g.params[1]
        vs = [s for s in walk_no_nested(g.node) if isinstance(s, ast.Assign) and norm(s.value) == f"{dp}.compute_disorder({gs})"]
        if len(vs) != 1:
            ctx.undecided("R-C03-3", g, None, "disorders = dissimilarity.compute_disorder(self) not found", key=qn)
            continue
        vec = norm(vs[0].targets[0])
        loops = [L for L in walk_no_nested(g.node) if isinstance(L, ast.For) and norm(L.iter) == f"enumerate({vec})"]
        ok_store = False
        if len(loops) == 1 and isinstance(loops[0].target, ast.Tuple):
            i, d = norm(loops[0].target.elts[0]), norm(loops[0].target.elts[1])
            ok_store = len(loops[0].body) == 1 and isinstance(loops[0].body[0], ast.Assign) and \
                norm(loops[0].body[0].targets[0]) == f"{gs}.unitary_alignments[{i}].disorder" and norm(loops[0].body[0].value) == d
        ctx.check(ok_store, "R-C03-3", g, loops[0] if loops else None, "the i-th recomputed disorder is stored on the i-th unitary alignment",
                  bad_detail="recomputed unitary disorders are not stored position by position", key=f"{qn}:store")
        st = [s for s in walk_no_nested(g.node) if isinstance(s, ast.Assign) and norm(s.targets[0]) == f"{gs}.{DF}"]
        okv = len(st) == 1 and norm(st[0].value) in (f"np.sum({vec}) / {gs}.{AVG}", f"{vec}.sum() / {gs}.{AVG}", f"sum({vec}) / {gs}.{AVG}")
        rets = [r for r in walk_no_nested(g.node) if isinstance(r, ast.Return)]
        ctx.check(okv and len(rets) == 1 and norm(rets[0].value) == f"{gs}.{DF}", "R-C03-3", g, st[0] if st else None,
                  "recomputed alignment disorder = sum(unitary disorders) / mean number of units per annotator, cached and returned",
                  bad_detail=f"recomputed alignment disorder is `{norm(st[0].value) if st else None}`", key=f"{qn}:value")
    a = ctx.fn(f"Alignment.{AVG}", "R-C03-3")
    an = a.self_name
    ifs = [i for i in walk_no_nested(a.node) if isinstance(i, ast.If) and norm(i.test) in (f"{an}.continuum is not None", f"{an}.continuum is None")]
    ok = False
    # which value is returned with / without an attached continuum (whatever the polarity of the test)
    r1, r2 = [], []
    for r in [s for s in walk_no_nested(a.node) if isinstance(s, ast.Return)]:
        for t, truth in conditions_at(a.node, r):
            if isinstance(t, ast.Compare) and len(t.ops) == 1 and norm(t.left) == f"{an}.continuum" and isinstance(t.comparators[0], ast.Constant) \
                    and t.comparators[0].value is None:
                attached = (isinstance(t.ops[0], ast.IsNot) and truth) or (isinstance(t.ops[0], ast.Is) and not truth)
                (r1 if attached else r2).append(r)
    if len(r1) == 1 and len(r2) == 1:
        ok = norm(r1[0].value) == f"{an}.continuum.{AVG}" and \
            canon(r2[0].value) in {canon(f"sum((u.nb_units for u in {an})) / {an}.num_annotators"),
                                   canon(f"sum((u.nb_units for u in {an}.unitary_alignments)) / {an}.num_annotators")}
    ctx.check(ok, "R-C03-3", a, ifs[0] if ifs else None,
              "mean units per annotator: the continuum's when attached, else (number of real units) / (number of slots)",
              bad_detail="Alignment.avg_num_annotations_per_annotator deviates from continuum.avg... / sum(nb_units)/num_annotators", key="avg")
    check_unitary_record(ctx, "R-SUP")
    check_alignment_record(ctx, "R-SUP")
    from .support import check_accessor
    for qn in ("Continuum." + AVG, "Continuum.num_units", "Continuum.num_annotators", "Alignment.num_annotators"):
        check_accessor(ctx, qn)


def rule_fast_cache(ctx: Ctx):
    f = ctx.fn("Continuum.get_fast_alignment", "R-C03-4")
    sn = f.self_name
    rets = [r for r in walk_no_nested(f.node) if isinstance(r, ast.Return) and isinstance(r.value, ast.Call)]
    if len(rets) != 1:
        ctx.undecided("R-C03-4", f, None, "single return Alignment(...) expected", key="fast")
        return
    rc = rets[0].value
    d = kwarg(rc, "disorder")
    lst = None
    if d is not None and isinstance(d, ast.BinOp) and isinstance(d.op, ast.Div) and isinstance(d.left, ast.Call) and \
            dotted(d.left.func) in ("np.sum", "sum") and norm(d.right) == f"{sn}.{AVG}":
        lst = norm(d.left.args[0])
    ok = False
    ua_list = norm(rc.args[0]) if rc.args else None
    if lst:
        apps = [c for c in walk_no_nested(f.node) if isinstance(c, ast.Call) and norm(c.func) == f"{lst}.append"]
        apps_u = [c for c in walk_no_nested(f.node) if isinstance(c, ast.Call) and norm(c.func) == f"{ua_list}.append"]
        if len(apps) == 1 and len(apps_u) == 1:
            v, u = norm(apps[0].args[0]), norm(apps_u[0].args[0])
            same_block = enclosing(f.node, apps[0], (ast.For,))[-1:] == enclosing(f.node, apps_u[0], (ast.For,))[-1:]
            ok = v == f"{u}.disorder" and same_block
    ctx.check(ok, "R-C03-4", f, rc, "fast alignment caches sum(disorder of exactly the unitary alignments it keeps) / mean units per annotator of the whole continuum",
              bad_detail="the disorder cached by get_fast_alignment is not sum(kept unitary disorders) / self.avg_num_annotations_per_annotator",
              key="fast")
    cont = kwarg(rc, "continuum") or (rc.args[1] if len(rc.args) > 1 else None)
    ctx.check(cont is not None and norm(cont) == sn and dotted(rc.func) == "Alignment", "R-C03-4", f, rc,
              "the fast alignment is attached to the original continuum (not the shrinking copy)", key="fast-continuum")


def rule_kinds(ctx: Ctx):
    """UnitaryAlignment._disorder only ever receives a UNITARY value"""
    M, p = ctx.model, prog(ctx)

    def kind_of(f, e: ast.AST, depth=0) -> str:
        if depth > 5:
            return "?"
        if isinstance(e, ast.Constant) and e.value is None:
            return "NONE"
        fl = p.flow(f)
        if isinstance(e, ast.Call):
            tg = [t.qualname for cs in fl.calls if cs.node is e for t in cs.targets]
            if any(q.endswith(".compute_disorder") and q.split(".")[0] in ("Alignment", "SoftAlignment", "AbstractAlignment") for q in tg):
                return "ALIGNMENT"
            if any(q == "UnitaryAlignment.compute_disorder" for q in tg):
                return "UNITARY"
            if any(q in ("AbstractDissimilarity.compute_disorder", "AbstractDissimilarity._compute_alignment_disorders") for q in tg):
                return "VEC"
            if any(q in ("AbstractDissimilarity.valid_alignments", "AbstractDissimilarity._get_all_valid_alignments") for q in tg):
                return "PAIR(VEC,IDS)"
            if dotted(e.func) in ("np.sum", "sum") and e.args and kind_of(f, e.args[0], depth + 1) == "VEC":
                return "SUM"
            if dotted(e.func) in ("float", "np.float32") and e.args:
                return kind_of(f, e.args[0], depth + 1)
            return "?"
        if isinstance(e, ast.BinOp) and isinstance(e.op, ast.Div):
            if kind_of(f, e.left, depth + 1) == "SUM" and norm(e.right).endswith(AVG):
                return "ALIGNMENT"
            return "?"
        if isinstance(e, ast.Attribute):
            if e.attr in ("disorder", "_disorder", backing_field(M, "Alignment", "disorder", "_disorder"), backing_field(M, "UnitaryAlignment", "disorder", "_disorder")):
                t = fl.type_at(e.value)
                if t is not None and t.name == "UnitaryAlignment":
                    return "UNITARY"
                if t is not None and t.name in ("Alignment", "SoftAlignment"):
                    return "ALIGNMENT"
            return "?"
        if isinstance(e, ast.Subscript):
            k = kind_of(f, e.value, depth + 1)
            if k == "VEC":
                st = fl.type_at(e.slice)
                # vector indexed by an id array stays a vector; by a scalar gives one unitary disorder
                sdef = resolve_local(f.node, e.slice)
                if isinstance(e.slice, ast.Name) and any(isinstance(v, ast.Call) and "where" in norm(v.func) for v in assigned_value(f.node, e.slice.id)):
                    return "VEC"
                for a in walk_no_nested(f.node):
                    if isinstance(a, ast.Assign) and isinstance(a.targets[0], ast.Tuple) and len(a.targets[0].elts) == 1 and \
                            norm(a.targets[0].elts[0]) == norm(e.slice):
                        return "VEC"
                return "UNITARY"
            return "?"
        if isinstance(e, ast.Name):
            # loop variable over a VEC (possibly through enumerate)
            for L in walk_no_nested(f.node):
                if isinstance(L, ast.For):
                    it = L.iter
                    src = it.args[0] if isinstance(it, ast.Call) and dotted(it.func) == "enumerate" and it.args else it
                    names = [norm(x) for x in ast.walk(L.target) if isinstance(x, ast.Name)]
                    # for a, b in zip(X, Y): each target takes the kind of an element of its own argument
                    zc = it if isinstance(it, ast.Call) and dotted(it.func) == "zip" else (
                        src if isinstance(it, ast.Call) and dotted(it.func) == "enumerate" and isinstance(src, ast.Call) and dotted(src.func) == "zip" else None)
                    if zc is not None and e.id in names:
                        tgt = L.target if zc is it else (L.target.elts[1] if isinstance(L.target, ast.Tuple) and len(L.target.elts) == 2 else None)
                        if isinstance(tgt, ast.Tuple) and len(tgt.elts) == len(zc.args):
                            for te, arg in zip(tgt.elts, zc.args):
                                if isinstance(te, ast.Name) and te.id == e.id:
                                    return "UNITARY" if kind_of(f, arg, depth + 1) == "VEC" else "?"
                        if zc is not it and isinstance(L.target, ast.Tuple) and norm(L.target.elts[0]) == e.id:
                            return "INDEX"
                        return "?"
                    if e.id in names:
                        if isinstance(it, ast.Call) and dotted(it.func) == "enumerate" and names and names[0] == e.id:
                            return "INDEX"
                        return "UNITARY" if kind_of(f, src, depth + 1) == "VEC" else "?"
            vs = assigned_value(f.node, e.id)
            # tuple-unpacking of valid_alignments
            for a in walk_no_nested(f.node):
                if isinstance(a, ast.Assign) and isinstance(a.targets[0], ast.Tuple) and len(a.targets[0].elts) == 2 and \
                        norm(a.targets[0].elts[0]) == e.id and kind_of(f, a.value, depth + 1) == "PAIR(VEC,IDS)":
                    return "VEC"
            if len(vs) == 1:
                return kind_of(f, vs[0], depth + 1)
            if e.id in f.params:
                # parameter of a private helper: the kind every caller passes
                if f.name.startswith("_") and not f.name.startswith("__") and not stores_to(f.node, e.id):
                    kinds = set()
                    idx = f.params.index(e.id)
                    for g in M.all_functions():
                        gl = p.flow(g) if not isinstance(g.node, ast.Lambda) else None
                        if gl is None:
                            continue
                        for cs in gl.calls:
                            if isinstance(cs.node, ast.Call) and any(t is f or t.qualname == f.qualname for t in cs.targets):
                                off = 1 if (f.cls is not None and f.kind != "staticmethod" and isinstance(cs.node.func, ast.Attribute)) else 0
                                a = next((k.value for k in cs.node.keywords if k.arg == e.id), None)
                                if a is None and 0 <= idx - off < len(cs.node.args):
                                    a = cs.node.args[idx - off]
                                kinds.add(kind_of(g, a, depth + 1) if a is not None else "?")
                    if len(kinds) == 1 and "?" not in kinds:
                        return next(iter(kinds))
                return "PARAM"
            return "?"
        return "?"

    n = 0
    # stores through the property setter
    for f in M.all_functions():
        if isinstance(f.node, ast.Lambda):
            continue
        fl = p.flow(f)
        if fl is None:
            continue
        for cs in fl.calls:
            if cs.implicit == "setter" and any(t.qualname == "UnitaryAlignment.disorder.setter" for t in cs.targets):
                node = cs.node
                val = node.value if isinstance(node, (ast.Assign, ast.AnnAssign)) else None
                if val is None:
                    continue
                k = kind_of(f, val)
                n += 1
                if k == "UNITARY":
                    ctx.ok("R-C03-5", f, node, "a unitary disorder (mean over the annotator pairs) is stored on the unitary alignment", key="kind=UNITARY")
                elif k == "?":
                    ctx.undecided("R-C03-5", f, node, "cannot classify the value stored as unitary disorder", key="kind=?")
                else:
                    ctx.bad("R-C03-5", f, node, f"a value of kind {k} is stored as the disorder of a unitary alignment", key=f"kind={k}")
    # direct stores inside UnitaryAlignment
    U = M.classes["UnitaryAlignment"]
    for f in list(U.methods.values()) + list(U.setters.values()):
        sn = f.self_name
        for s in walk_no_nested(f.node):
            if isinstance(s, (ast.Assign, ast.AnnAssign)):
                tg = s.targets[0] if isinstance(s, ast.Assign) else s.target
                if norm(tg) == f"{sn}.{backing_field(M, 'UnitaryAlignment', 'disorder', '_disorder')}" and s.value is not None:
                    k = kind_of(f, s.value)
                    n += 1
                    if k in ("UNITARY", "NONE") or (k == "PARAM" and f.kind == "setter"):
                        ctx.ok("R-C03-5", f, s, f"stores {k.lower()} value", key=f"kind={k}")
                    elif k == "?":
                        ctx.undecided("R-C03-5", f, s, "cannot classify the value stored in UnitaryAlignment._disorder", key="kind=?")
                    else:
                        ctx.bad("R-C03-5", f, s, f"UnitaryAlignment._disorder receives a value of kind {k}: the alignment-level disorder of a "
                                f"one-element alignment (sum / mean units per annotator) instead of the mean over annotator pairs; "
                                f"they differ as soon as the unitary alignment holds an empty unit", key=f"kind={k}")
    if n < 4:
        ctx.undecided("R-C03-5", None, None, f"only {n} stores of unitary disorders found (floor 4)", construct="floor", key="floor")


def run(ctx: Ctx):
    ctx.clauses += [
        "R-C03-0 array layout and empty-unit sentinel written by _build_arrays_alignment agree with what the kernel reads; slot = sorted annotator index",
        "R-C03-1 kernel: every unordered pair of the n slots once, delta_empty iff either slot is empty, else d_mat(rows); divided exactly once by n(n-1)/2",
        "R-C03-2 call-site role agreement between compute_disorder / valid_alignments and their kernels",
        "R-C03-3 alignment level: disorder, compute_disorder (plain and soft) = sum(unitary)/mean units per annotator; position-wise storage; fallback without continuum",
        "R-C03-4 cached disorders at the three construction sites (best, soft, fast) use the same expression over exactly the kept unitary alignments",
        "R-C03-5 kind discipline: UnitaryAlignment._disorder only ever receives a unitary disorder",
        "R-C03-6 recomputation is total on unlabelled units (no Optional label reaches .index() unguarded)",
    ]
    ctx.not_decided += ["numerical agreement of cached and recomputed values to float32 precision"]
    ctx.assumptions += ["numba semantics of the kernel", "d_mat symmetric (C04)"]
    array_layout(ctx, "R-C03-0")
    nbk.check_sentinel_producer(ctx, "R-C03-0")
    rule_call_roles(ctx)
    nbk.check_pair_kernel(ctx, {**{k: "R-C03-1" for k in ("zero-init", "outer", "pair-domain", "empty-test", "empty-cost", "real-cost", "normalisation")}, "entry": "R-C03-2"})
    ctx.floor("R-C03-1", 7, "slots of the pair kernel")
    rule_alignment_level(ctx)
    for qn, cls in (("Continuum.get_best_alignment", "Alignment"), ("Continuum.get_best_soft_alignment", "SoftAlignment")):
        F = ilp.analyse(ctx, qn, "R-C03-4")
        ilp.check_decoding(ctx, F, {"ua-disorder": "R-C03-4", "cached": "R-C03-4", "same-ids": "R-C03-4"}, cls)
    nbk.check_candidates(ctx, {"final-normalise": "R-C03-4", "c2n": "R-C03-4", "entry": "R-C03-2"})
    rule_fast_cache(ctx)
    rule_kinds(ctx)
    n = rule_nullable_index(ctx, "R-C03-6", ["Alignment.compute_disorder", "SoftAlignment.compute_disorder", "UnitaryAlignment.compute_disorder"],
                            "recomputing the disorder of alignments holding unlabelled units")
    if n < 1:
        ctx.undecided("R-C03-6", None, None, "no label lookup on the recomputation path (anchor vanished)", construct="floor", key="floor")
