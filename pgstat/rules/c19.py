"""C19 - corpus shuffling yields valid corpora and each perturbation is confined (DESIGN 4/C19)."""
from __future__ import annotations

import ast
from typing import Dict, List, Optional, Tuple

from .. import algebra as A
from ..algebra import Extractor, Rat, Unsupported
from ..cfg import CFG
from ..core import Ctx
from ..model import body_stmts, dotted, kwarg, norm, walk_no_nested
from .common import CACHING_DECORATORS, assigned_value, check_annotator_key, conditions_at, enclosing, source_order, xnorm, expand_locals, is_cmp, prog, resolve_local

CLS = "CorpusShufflingTool"


def _calls(node, recv: str, name: str) -> List[ast.Call]:
    return [c for c in ast.walk(node) if isinstance(c, ast.Call) and isinstance(c.func, ast.Attribute) and c.func.attr == name and norm(c.func.value) == recv]


def _at_zero(expr: ast.AST, mag: str, env: Dict[str, Rat], attrs=None) -> Rat:
    """value of an arithmetic expression at magnitude = 0 (other names are opaque atoms)"""
    def attr(ex, e):
        t = norm(e)
        if t == mag:
            return Rat.const(0)
        return Rat.var(t)

    def call(ex, c):
        if dotted(c.func) in ("int", "float", "round") and len(c.args) == 1:
            return ex.ev(c.args[0])
        return Rat.var(norm(c))          # any other call is an opaque finite value

    class E(Extractor):
        def ev(self, e):
            if isinstance(e, ast.Name) and e.id not in self.env:
                return Rat.var(e.id)
            return super().ev(e)
    ex = E(env, attribute=attr, call=call)
    return ex.ev(expr)


def rule_from_reference(ctx: Ctx):
    f = ctx.fn(f"{CLS}.corpus_from_reference", "R-C19-1")
    sn = f.self_name
    new = [s for s in walk_no_nested(f.node) if isinstance(s, ast.Assign) and norm(s.value) == "Continuum()"]
    ctx.require(len(new) == 1, "R-C19-1", "continuum = Continuum() not found")
    cv = norm(new[0].targets[0])
    outer = [L for L in walk_no_nested(f.node) if isinstance(L, ast.For) and norm(L.iter) == f"{sn}._reference_continuum.iter_annotator({sn}._reference_annotator)"]
    ok = False
    if len(outer) == 1:
        u = norm(outer[0].target)
        # the requested annotators: the parameter (after the integer form has been expanded in place) or a local that is the generated names for an
        # integer request and the parameter itself otherwise
        p_new = f.params[1]

        def requested(e) -> bool:
            if norm(e) == p_new:
                return True
            if not isinstance(e, ast.Name):
                return False
            defs = assigned_value(f.node, e.id)
            return len(defs) == 2 and {("gen" if isinstance(d, ast.ListComp) and norm(d.generators[0].iter) == f"range({p_new})" else norm(d)) for d in defs} == {"gen", p_new} and \
                all(any(isinstance(t, ast.Call) and norm(t) == f"isinstance({p_new}, int)" for t, _ in conditions_at(f.node, s_)) for s_ in walk_no_nested(f.node)
                    if isinstance(s_, ast.Assign) and norm(s_.targets[0]) == e.id)
        inner = [L for L in outer[0].body if isinstance(L, ast.For) and requested(L.iter)]
        if len(inner) == 1 and len(outer[0].body) == 1:
            a = norm(inner[0].target)
            adds = _calls(inner[0], cv, "add")
            ok = len(adds) == 1 and len(inner[0].body) == 1 and [norm(x) for x in adds[0].args] == [a, f"Segment({u}.segment.start, {u}.segment.end)", f"{u}.annotation"] or \
                (len(adds) == 1 and [norm(x) for x in adds[0].args] == [a, f"{u}.segment", f"{u}.annotation"])
    ctx.check(ok, "R-C19-1", f, outer[0] if outer else None, "every unit of the reference annotator is copied (same segment, same label) to every requested annotator",
              bad_detail="corpus_from_reference does not copy each reference unit to each new annotator unchanged", key="copy-all")
    names = [i for i in walk_no_nested(f.node) if isinstance(i, ast.If) and norm(i.test) == f"isinstance({f.params[1]}, int)"]
    okn = len(names) == 1 and names[0].body and isinstance(names[0].body[0], ast.Assign) and isinstance(names[0].body[0].value, ast.ListComp) and \
        norm(names[0].body[0].value.generators[0].iter) == f"range({f.params[1]})" and isinstance(names[0].body[0].value.elt, ast.JoinedStr)
    ctx.check(okn, "R-C19-1", f, names[0] if names else None, "an integer request yields that many distinct generated annotator names", key="names")
    rets = [r for r in walk_no_nested(f.node) if isinstance(r, ast.Return)]
    ctx.check(len(rets) == 1 and norm(rets[0].value) == cv, "R-C19-1", f, rets[0] if rets else None, "the new corpus is returned", key="return")


def _unit_loop(f, cont: str):
    """for annotator in continuum.annotators: for unit in [list(]continuum[annotator][)]:"""
    for O in walk_no_nested(f.node):
        if isinstance(O, ast.For) and norm(O.iter) == f"{cont}.annotators":
            a = norm(O.target)
            for I in O.body:
                if isinstance(I, ast.For) and norm(I.iter) in (f"{cont}[{a}]", f"list({cont}[{a}])"):
                    return O, I, a, norm(I.target)
    return None


def rule_perturbations(ctx: Ctx):
    M = ctx.model
    mag_of = lambda f: f"{f.self_name}.magnitude"
    # ---------------- shift
    f = ctx.fn(f"{CLS}.shift_shuffle", "R-C19-2")
    cont = f.params[1]
    ul = _unit_loop(f, cont)
    if ul is None:
        ctx.undecided("R-C19-2", f, None, "per-unit loop not found", key="shift")
    else:
        O, I, a, u = ul
        rm, ad = _calls(I, cont, "remove"), _calls(I, cont, "add")
        ok = len(rm) == 1 and len(ad) == 1 and [norm(x) for x in rm[0].args] == [a, u] and norm(ad[0].args[0]) == a and norm(ad[0].args[2]) == f"{u}.annotation" and \
            not enclosing(I, rm[0], (ast.If, ast.While)) and not enclosing(I, ad[0], (ast.If, ast.While))
        ctx.check(ok, "R-C19-2", f, I, "shift: each unit is removed once and re-added once under the same annotator with the same label: the number of units is kept",
                  bad_detail=f"shift does not remove 1 / add 1 per unit with the same label (removes {len(rm)}, adds {len(ad)})", key="shift-effects")
        seg = ad[0].args[1] if ad else None
        okz = False
        why = ""
        if isinstance(seg, ast.Call) and dotted(seg.func) == "Segment":
            try:
                defs_s = [s.value for s in ast.walk(I) if isinstance(s, ast.Assign) and norm(s.targets[0]) == norm(seg.args[0]) and isinstance(s.value, ast.BinOp)]
                defs_e = [s.value for s in ast.walk(I) if isinstance(s, ast.Assign) and norm(s.targets[0]) == norm(seg.args[1]) and isinstance(s.value, ast.BinOp)]
                # amplitude = the function-level local (defined before the loops) that both shifted ends multiply
                outer_locals = {norm(s.targets[0]): s.value for s in f.node.body if isinstance(s, ast.Assign) and isinstance(s.targets[0], ast.Name)}
                used = [n_ for n_ in outer_locals if defs_s and defs_e and n_ in {x.id for x in ast.walk(defs_s[0]) if isinstance(x, ast.Name)}
                        and n_ in {x.id for x in ast.walk(defs_e[0]) if isinstance(x, ast.Name)}]
                amp = used[0] if len(used) == 1 else None
                z = _at_zero(outer_locals[amp], mag_of(f), {}) if amp else None
                if z is not None and z.is_zero() and len(defs_s) == 1 and len(defs_e) == 1:
                    env = {amp: Rat.const(0)}
                    vs = _at_zero(defs_s[0], mag_of(f), env)
                    ve = _at_zero(defs_e[0], mag_of(f), env)
                    okz = vs == Rat.var(f"{u}.segment.start") and ve == Rat.var(f"{u}.segment.end")
                    why = f"start -> {vs}, end -> {ve}"
                else:
                    why = f"shift amplitude at magnitude 0 = {z}"
            except Unsupported as e:
                why = str(e)
        ctx.check(okz, "R-C19-3", f, seg, "magnitude 0: shift amplitude vanishes, the unit is re-added with its own start and end",
                  bad_detail=f"shift is not the identity at magnitude 0 ({why})", key="shift-zero")
        wl = [w for w in ast.walk(I) if isinstance(w, ast.While)]
        ctx.check(len(wl) == 1 and is_cmp(wl[0].test, norm(seg.args[0]), ">=", norm(seg.args[1])) if seg is not None and isinstance(seg, ast.Call) else False,
                  "R-C19-2", f, wl[0] if wl else None, "shifted ends are redrawn until start < end: only positive-duration units", key="shift-positive")
    # ---------------- false negatives
    f = ctx.fn(f"{CLS}.false_neg_shuffle", "R-C19-2")
    cont = f.params[1]
    ul = _unit_loop(f, cont)
    if ul is None:
        ctx.undecided("R-C19-2", f, None, "per-unit loop not found", key="fneg")
    else:
        O, I, a, u = ul
        rm = _calls(O, cont, "remove")
        ad = _calls(O, cont, "add")
        okr = len(rm) == 1 and [norm(x) for x in rm[0].args] == [a, u]
        gi = enclosing(O, rm[0], (ast.If,)) if rm else []
        okp = len(gi) == 1 and norm(resolve_local(f.node, gi[0].test)) in (f"np.random.random() < {mag_of(f)}", f"numpy.random.random() < {mag_of(f)}", f"np.random.uniform() < {mag_of(f)}")
        ctx.check(okr and okp, "R-C19-2", f, rm[0] if rm else I, "false negatives: each unit is removed with probability magnitude (strict <, so never at magnitude 0)",
                  bad_detail="false-negative removal is not `if random() < magnitude: remove(unit)`", key="fneg-remove")
        oks = False
        if len(ad) == 1:
            sec = norm(ad[0].args[1]).split(".")[0]
            sdef = [s for s in O.body if isinstance(s, ast.Assign) and norm(s.targets[0]) == sec]
            gi2 = enclosing(O, ad[0], (ast.If,))
            _x = lambda e: xnorm(f.node, e)
            oks = len(sdef) == 1 and _x(sdef[0].value) in (f"np.random.choice({cont}._annotations[{a}])", f"np.random.choice({cont}[{a}])") and \
                len(gi2) == 1 and _x(gi2[0].test) in (f"len({cont}._annotations[{a}]) == 0", f"len({cont}[{a}]) == 0", f"not {cont}._annotations[{a}]", f"not {cont}[{a}]",
                                                      f"not len({cont}._annotations[{a}])", f"len({cont}._annotations[{a}]) < 1") and \
                [norm(x) for x in ad[0].args] == [a, f"{sec}.segment", f"{sec}.annotation"] and not any(ad[0] is x for x in ast.walk(I))
        ctx.check(oks and len(ad) == 1, "R-C19-2", f, ad[0] if ad else O, "the only addition re-adds one of the annotator's own former units when all were removed: no annotator ends up empty, nothing new appears",
                  bad_detail="false negatives add something else than the 'security' unit of the same annotator, guarded by emptiness", key="fneg-security")
    # ---------------- false positives
    f = ctx.fn(f"{CLS}.false_pos_shuffle", "R-C19-2")
    cont = f.params[1]
    rm = _calls(f.node, cont, "remove") + _calls(f.node, cont, "pop")
    ad = _calls(f.node, cont, "add")
    ctx.check(not rm and len(ad) == 1, "R-C19-2", f, ad[0] if ad else None, "false positives only add units", bad_detail="false positives remove units", key="fpos-effects")
    if ad:
        loops = enclosing(f.node, ad[0], (ast.For,))
        cnt = loops[-1].iter if loops else None
        okz = False
        try:
            if isinstance(cnt, ast.Call) and dotted(cnt.func) == "range":
                okz = _at_zero(cnt.args[0], mag_of(f), {}).is_zero()
        except Unsupported:
            okz = False
        ctx.check(okz, "R-C19-3", f, cnt, "magnitude 0: no false positive is added (count expression vanishes)", bad_detail="the number of false positives does not vanish at magnitude 0", key="fpos-zero")
        cat = kwarg(ad[0], "annotation") or (ad[0].args[2] if len(ad[0].args) > 2 else None)
        cdef = resolve_local(f.node, cat) if cat is not None else None
        okc = False
        if isinstance(cdef, ast.Call) and norm(cdef.func) == "np.random.choice" and cdef.args and norm(cdef.args[0]).endswith(".keys()") and kwarg(cdef, "p") is not None:
            W = norm(cdef.args[0])[:-len(".keys()")]
            okc = norm(kwarg(cdef, "p")) == f"{W}.values()" and \
                any(norm(v) == f"{f.self_name}._reference_continuum.category_weights" for v in assigned_value(f.node, W))
        ctx.check(okc, "R-C19-2", f, cdef, "added units take a category of the reference, drawn with the reference's category frequencies", key="fpos-category")
        seg = ad[0].args[1]
        oks = False
        def nonneg_by_construction(e: ast.AST) -> bool:
            if isinstance(e, ast.Call) and dotted(e.func) in ("abs", "np.abs", "numpy.abs", "math.fabs"):
                return True
            if isinstance(e, ast.BinOp) and isinstance(e.op, (ast.Div, ast.Mult)):
                def pos_const(x):
                    return isinstance(x, ast.Constant) and isinstance(x.value, (int, float)) and x.value > 0
                return (nonneg_by_construction(e.left) and pos_const(e.right)) or (isinstance(e.op, ast.Mult) and pos_const(e.left) and nonneg_by_construction(e.right))
            return False
        shape = False
        if isinstance(seg, ast.Call) and dotted(seg.func) == "Segment" and len(seg.args) == 2 and all(isinstance(a_, ast.BinOp) for a_ in seg.args):
            lo_, hi_ = seg.args
            if isinstance(lo_.op, ast.Sub) and isinstance(hi_.op, ast.Add) and norm(lo_.left) == norm(hi_.left) and norm(lo_.right) == norm(hi_.right):
                shape = True
                oks = nonneg_by_construction(expand_locals(f.node, lo_.right))
        if shape:
            ctx.check(oks, "R-C19-2", f, seg, "added segments are [center - h, center + h] with h = |N(.)|/2 >= 0", key="fpos-segment",
                      bad_detail="the half-width of an added segment is not non-negative by construction (|.| times a positive constant): start may exceed end")
        else:
            ctx.undecided("R-C19-2", f, seg, "added segments are not built as Segment(center - h, center + h) (not a verdict)", key="fpos-segment")
    # ---------------- category
    f = ctx.fn(f"{CLS}.category_shuffle", "R-C19-2")
    cont = f.params[1]
    ul = _unit_loop(f, cont)
    if ul is None:
        ctx.undecided("R-C19-2", f, None, "per-unit loop not found", key="cat")
    else:
        O, I, a, u = ul
        rm, ad = _calls(I, cont, "remove"), _calls(I, cont, "add")
        ok = len(rm) == 1 and len(ad) == 1 and [norm(x) for x in rm[0].args] == [a, u] and norm(ad[0].args[0]) == a and \
            norm(ad[0].args[1]) in (f"Segment({u}.segment.start, {u}.segment.end)", f"{u}.segment")
        ctx.check(ok, "R-C19-2", f, ad[0] if ad else I, "category shuffling re-adds every unit with exactly its own segment: all segments are kept",
                  bad_detail="category shuffling does not keep each unit's segment", key="cat-segments")
        newc = resolve_local(I, ad[0].args[2]) if ad else None
        nd = [s.value for s in ast.walk(I) if isinstance(s, ast.Assign) and ad and norm(s.targets[0]) == norm(ad[0].args[2])]
        okd = False
        PM = None
        if len(nd) == 1 and isinstance(nd[0], ast.Call) and norm(nd[0].func) == "np.random.choice" and nd[0].args and isinstance(nd[0].args[0], ast.Name) \
                and isinstance(kwarg(nd[0], "p"), ast.Subscript):
            CATS = nd[0].args[0].id
            pk = kwarg(nd[0], "p")
            PM = norm(pk.value)
            idx = pk.slice
            if isinstance(idx, ast.Call) and isinstance(idx.func, ast.Attribute) and idx.func.attr == "index" and [norm(a_) for a_ in idx.args] == [f"{u}.annotation"]:
                W = norm(idx.func.value)
                okd = any(norm(v) == f"list({W}.keys())" for v in assigned_value(f.node, CATS)) and \
                    any(norm(v) == f"{f.self_name}._reference_continuum.category_weights" for v in assigned_value(f.node, W))
        ctx.check(okd, "R-C19-2", f, nd[0] if nd else None, "the new category is one of the reference's categories, drawn from the row of the unit's current category", key="cat-draw")
        # identity at magnitude 0 for every formula of the transition matrix
        # a formula is what one block makes of the matrix: `P = E(P)`, or a run of updates `P *= a ; P += b` (value-wise `P = P * a + b`), composed
        # in statement order into one expression over the matrix the block started from
        forms, consumed = [], []
        if PM:
            import copy as _copy
            for node_ in [f.node] + list(walk_no_nested(f.node)):
                for fld_ in ("body", "orelse", "finalbody"):
                    blk_ = getattr(node_, fld_, None)
                    if not isinstance(blk_, list) or not blk_ or not isinstance(blk_[0], ast.stmt):
                        continue
                    cur_, first_ = None, None
                    for st_ in blk_:
                        if isinstance(st_, ast.Assign) and norm(st_.targets[0]) == PM and isinstance(st_.value, ast.BinOp):
                            val_ = _copy.deepcopy(st_.value)
                            if cur_ is not None:
                                class _Sub(ast.NodeTransformer):
                                    def visit_Name(self, n, _c=cur_):
                                        return _copy.deepcopy(_c) if n.id == PM and isinstance(n.ctx, ast.Load) else n
                                val_ = _Sub().visit(val_)
                            cur_, first_ = val_, first_ or st_
                            consumed.append(st_)
                        elif isinstance(st_, ast.AugAssign) and norm(st_.target) == PM:
                            cur_ = ast.BinOp(left=cur_ if cur_ is not None else ast.Name(id=PM, ctx=ast.Load()), op=st_.op, right=_copy.deepcopy(st_.value))
                            first_ = first_ or st_
                            consumed.append(st_)
                    if cur_ is not None:
                        a_ = ast.copy_location(ast.Assign(targets=[ast.Name(id=PM, ctx=ast.Store())], value=cur_), first_)
                        a_.end_lineno, a_.end_col_offset = getattr(first_, "end_lineno", None), getattr(first_, "end_col_offset", None)
                        ast.fix_missing_locations(a_)
                        forms.append(a_)
        host = f
        if not forms and PM:
            # the matrix comes from a method of the tool (not inlined: it carries a decorator, or is a public method): its returns are the formulas
            pdefs = [v for v in assigned_value(f.node, PM) if isinstance(v, ast.Call) and isinstance(v.func, ast.Attribute) and norm(v.func.value) == f.self_name]
            if len(pdefs) == 1:
                mth = M.find_method(f.cls, pdefs[0].func.attr)
                if mth is not None:
                    host = mth
                    ctx.functions_analysed.add(mth.qualname)
                    forms = [ast.Assign(targets=[ast.Name(id=PM, ctx=ast.Store())], value=r.value, lineno=r.lineno, col_offset=r.col_offset)
                             for r in walk_no_nested(mth.node) if isinstance(r, ast.Return) and isinstance(r.value, ast.BinOp)]
                    cached = [d for d in mth.decorators if d.split(".")[-1] in CACHING_DECORATORS]
                    reads_mag = any(norm(x) == f"{mth.self_name}.magnitude" for x in walk_no_nested(mth.node) if isinstance(x, ast.Attribute))
                    if cached and reads_mag:
                        ctx.bad("R-C19-3", mth, None, f"the transition matrix is memoised (@{cached[0]}) per tool and options, but it is computed from self.magnitude, "
                                f"which callers reassign between shuffles: after a shuffle at magnitude m > 0, a shuffle at magnitude 0 re-uses the matrix of m "
                                f"and changes categories", construct=f"@{cached[0]}", key="cat-zero-cached")
        if not forms:
            ctx.undecided("R-C19-3", f, None, "the formulas of the category transition matrix were not found (not a verdict)", key="cat-zero")
        f_ = host
        locals_ = sorted({x.id for x in walk_no_nested(f_.node) if isinstance(x, ast.Name) and isinstance(x.ctx, ast.Store)})
        okI = bool(forms)
        for s in forms:
            try:
                # the magnitude may be read through a local; matrices (multiply assigned or mutated) keep their names
                eye_names = {norm(d.targets[0]) for d in walk_no_nested(f_.node) if isinstance(d, ast.Assign) and norm(d.value).startswith("np.eye(")}
                v = _at_zero(expand_locals(f_.node, s.value, skip=eye_names | {PM}), mag_of(f_), {})
                base = next((nm for nm in locals_ if v == Rat.var(nm)), None)
                if base is None:
                    okI = False
                    continue
                # what the formula reduces to must be the identity matrix: its only definition besides the formulas themselves is np.eye(n)
                bdefs = [d for d in walk_no_nested(f_.node) if isinstance(d, ast.Assign) and norm(d.targets[0]) == base and d not in forms and d not in consumed]
                if not (len(bdefs) == 1 and norm(bdefs[0].value).startswith("np.eye(")):
                    okI = False
            except Unsupported:
                okI = False
        if forms:
            ctx.check(okI, "R-C19-3", f_, forms[0] if forms and hasattr(forms[0], "end_lineno") else None,
                      f"magnitude 0: the transition matrix reduces to the identity in all {len(forms)} formulas: every category is kept",
                      bad_detail="the category transition matrix is not the identity at magnitude 0", key="cat-zero")
    # ---------------- splits
    f = ctx.fn(f"{CLS}.splits_shuffle", "R-C19-2")
    cont = f.params[1]
    outer = [L for L in f.node.body if isinstance(L, ast.For)]
    if len(outer) != 1:
        ctx.undecided("R-C19-2", f, None, "outer loop over the number of splits not found", key="split")
    else:
        O = outer[0]
        okz = False
        try:
            okz = isinstance(O.iter, ast.Call) and dotted(O.iter.func) == "range" and _at_zero(O.iter.args[0], mag_of(f), {}).is_zero()
        except Unsupported:
            pass
        ctx.check(okz, "R-C19-3", f, O.iter, "magnitude 0: no split is made", bad_detail="the number of splits does not vanish at magnitude 0", key="split-zero")
        pops = [c for c in ast.walk(O) if isinstance(c, ast.Call) and isinstance(c.func, ast.Attribute) and c.func.attr == "pop"]
        ad = _calls(O, cont, "add")
        trs = [t for t in ast.walk(O) if isinstance(t, ast.Try)]
        main = [c for c in ad if trs and any(c is x for b in trs[0].body for x in ast.walk(b))] if trs else ad
        okp = len(pops) == 1 and len(main) == 2
        piece_ok = False
        if okp:
            ts = norm(enclosing(O, pops[0], (ast.Assign,))[-1].targets[0])
            cut = None
            segs = []
            for c in main:
                sg = c.args[1]
                if isinstance(sg, ast.Call) and dotted(sg.func) == "Segment":
                    segs.append((xnorm(f.node, sg.args[0], stop=(ts, cont)), xnorm(f.node, sg.args[1], stop=(ts, cont))))
            labels = {xnorm(f.node, c.args[2], stop=(ts, cont)) for c in main}
            if len(segs) == 2 and labels == {f"{ts}.annotation"}:
                S, E = f"{ts}.segment.start", f"{ts}.segment.end"
                (a1, b1), (a2, b2) = segs
                cuts = ({a1, b1} | {a2, b2}) - {S, E}
                if len(cuts) == 1:
                    cut = next(iter(cuts))
                    pieces = {(a1, b1), (a2, b2)}
                    if pieces == {(S, cut), (cut, E)}:
                        # durations: (E - cut) + (cut - S) == E - S
                        x = Rat.var
                        piece_ok = ((x("E") - x("c")) + (x("c") - x("S"))) == (x("E") - x("S"))
            annot_loop = enclosing(O, pops[0], (ast.For,))
            piece_ok = piece_ok and bool(annot_loop) and norm(annot_loop[-1].iter) == f"{cont}.annotators" and all(norm(c.args[0]) == norm(annot_loop[-1].target) for c in main)
        ctx.check(okp and piece_ok, "R-C19-2", f, main[0] if main else O,
                  "a split removes one unit and adds its two pieces [start, cut] and [cut, end] with the same label: +1 unit, total duration kept ((end-cut)+(cut-start) = end-start)",
                  bad_detail="a split does not replace one unit by the two pieces sharing the cut with the same label", key="split-pieces")
        fb = [c for c in ad if c not in main]
        okf = all(xnorm(f.node, c.args[1]).endswith(".segment") and xnorm(f.node, c.args[2]).endswith(".annotation") for c in fb) and (not trs or (len(trs[0].handlers) == 1 and norm(trs[0].handlers[0].type) == "ValueError"))
        ctx.check(okf, "R-C19-2", f, fb[0] if fb else None, "if a piece would have zero length the original unit is put back unchanged", construct="fallback", key="split-fallback")


def rule_driver(ctx: Ctx):
    f = ctx.fn(f"{CLS}.corpus_shuffle", "R-C19-4")
    sn = f.self_name
    base = [s for s in walk_no_nested(f.node) if isinstance(s, ast.Assign) and norm(s.value) == f"{sn}.corpus_from_reference({f.params[1]})"]
    ctx.check(len(base) == 1, "R-C19-4", f, base[0] if base else None, "the corpus starts as exact copies of the reference for the requested annotators", key="base")
    if not base:
        return
    cv = norm(base[0].targets[0])
    table = {"shift": "shift_shuffle", "false_pos": "false_pos_shuffle", "false_neg": "false_neg_shuffle", "cat_shuffle": "category_shuffle", "split": "splits_shuffle"}
    calls_seen = set()
    for flag, meth in table.items():
        ifs = [i for i in f.node.body if isinstance(i, ast.If) and norm(i.test) == flag]
        ok = len(ifs) == 1 and len(ifs[0].body) == 1 and not ifs[0].orelse and norm(ifs[0].body[0]) == f"{sn}.{meth}({cv})"
        ctx.check(ok, "R-C19-4", f, ifs[0] if ifs else None, f"flag `{flag}` applies exactly {meth} (and nothing else) to the corpus",
                  bad_detail=f"flag `{flag}` does not guard exactly one call {meth}(corpus)", key=f"flag:{flag}")
        calls_seen.add(meth)
    allc = [c for c in walk_no_nested(f.node) if isinstance(c, ast.Call) and isinstance(c.func, ast.Attribute) and c.func.attr.endswith("_shuffle") and norm(c.func.value) == sn]
    ctx.check(len(allc) == len(table), "R-C19-4", f, None, "no perturbation runs outside its flag: with all flags off (or magnitude 0) the corpus is the exact copy",
              construct="perturbation calls", key="no-extra")
    inc = [i for i in f.node.body if isinstance(i, ast.If) and norm(i.test) in ("include_ref", "not include_ref")]
    ok = False

    def _with_ref(st) -> bool:
        # st runs exactly when include_ref holds (inside `if include_ref:` or after `if not include_ref: return ...`)
        ks = [(norm(t) == "include_ref") == pol for t, pol in conditions_at(f.node, st) if norm(t) in ("include_ref", "not include_ref")]
        return bool(ks) and all(ks)
    if len(inc) == 1:
        asr = [s for s in walk_no_nested(f.node) if isinstance(s, ast.Assert) and _with_ref(s)]
        loops = [L for L in walk_no_nested(f.node) if isinstance(L, ast.For) and _with_ref(L)]
        order = source_order(f.node)
        if len(asr) == 1 and len(loops) == 1 and norm(asr[0].test) == f"{sn}._reference_annotator not in {cv}.annotators" and order[id(asr[0])] < order[id(loops[0])]:
            u = norm(loops[0].target)
            ad = _calls(loops[0], cv, "add")
            ok = len(ad) == 1 and [norm(x) for x in ad[0].args] == [f"{sn}._reference_annotator", f"{u}.segment", f"{u}.annotation"] and \
                xnorm(f.node, loops[0].iter) in (f"{sn}._reference_continuum[next(iter({sn}._reference_continuum.annotators))]", f"{sn}._reference_continuum[{sn}._reference_annotator]",
                                        f"{sn}._reference_continuum.iter_annotator({sn}._reference_annotator)")
    ctx.check(ok, "R-C19-4", f, inc[0] if inc else None, "include_ref adds the reference's units under the reference annotator after checking the name is free",
              bad_detail="include_ref does not (assert absence, then) add every reference unit under the reference annotator", key="include-ref")
    rets = [r for r in walk_no_nested(f.node) if isinstance(r, ast.Return)]
    ctx.check(len(rets) >= 1 and all(norm(r.value) == cv for r in rets), "R-C19-4", f, rets[0] if rets else None, "the shuffled corpus is returned", key="return")


def rule_holds_reference(ctx: Ctx):
    """"the reference" every clause speaks of is the continuum the caller handed over, as it is when a corpus is generated: the tool keeps that very
    object (a snapshot taken at construction is a recognised shape with a wrong slot: units added to or removed from the reference afterwards are
    missing from / still in what magnitude 0 and include_ref copy)"""
    f = ctx.model.functions.get(f"{CLS}.__init__")
    if f is None or len(f.params) < 3:
        ctx.undecided("R-C19-1", None, None, f"{CLS}.__init__(self, magnitude, reference_continuum, ...) not found", construct="__init__", key="holds-reference")
        return
    ctx.functions_analysed.add(f.qualname)
    sts = [s for s in walk_no_nested(f.node) if isinstance(s, ast.Assign) and norm(s.targets[0]) == f"{f.self_name}._reference_continuum"]
    ref_params = [p_ for p_ in f.params[1:] if "reference" in p_ or "continuum" in p_]
    if len(sts) != 1 or not ref_params:
        ctx.undecided("R-C19-1", f, None, "the constructor does not store the reference exactly once (not a verdict)", key="holds-reference")
        return
    v = sts[0].value
    if isinstance(v, ast.Name) and v.id in ref_params:
        ctx.ok("R-C19-1", f, sts[0], "the tool keeps the reference continuum it is given (the object itself)", key="holds-reference")
    elif isinstance(v, ast.Call) and ((isinstance(v.func, ast.Attribute) and v.func.attr in ("copy", "__deepcopy__", "__copy__") and norm(v.func.value) in ref_params) or
                                     (dotted(v.func) in ("deepcopy", "copy.deepcopy", "copy.copy", "copy") and v.args and norm(v.args[0]) in ref_params)):
        ctx.bad("R-C19-1", f, sts[0], f"the tool keeps `{norm(v)}`, a snapshot of the reference taken at construction: a corpus generated after the caller has added or removed units "
                f"copies (magnitude 0, include_ref) and perturbs the continuum as it was then, not the reference", key="holds-reference")
    else:
        ctx.undecided("R-C19-1", f, sts[0], f"the tool keeps `{norm(v)}` as its reference, not the argument itself (not a verdict)", key="holds-reference")


def run(ctx: Ctx):
    ctx.clauses += [
        "R-C19-1 corpus_from_reference copies every reference unit (segment, label) to every requested annotator",
        "R-C19-2 effect signature of each perturbation on its corpus argument: shift {remove 1, add 1, same label, start < end}; false-neg {remove with prob magnitude, one guarded re-add of an own unit}; "
        "false-pos {add only, reference categories with reference frequencies}; category {remove 1, add 1 with the same segment, category of the reference}; split {pop 1, add the two pieces sharing the cut, same label; durations add up}",
        "R-C19-3 magnitude-0 identity by algebra: shift amplitude, false-positive count, split count vanish; removal test is strict; the category transition matrix reduces to the identity",
        "R-C19-4 corpus_shuffle: each flag guards exactly its own perturbation; include_ref adds the reference after an absence check; result returned",
    ]
    ctx.not_decided += ["collisions of generated units (set semantics can merge equal units)", "positivity of redrawn false-positive segments (duration 0 has probability 0)",
                        "the number of false positives uses len(reference) = number of annotators (documented as 'constant & proportional to the magnitude'; not part of the property)"]
    ctx.assumptions += ["Continuum.add / remove behave as in C13", "reference aliasing is C14's concern"]
    rule_from_reference(ctx)
    rule_holds_reference(ctx)
    check_annotator_key(ctx, "R-C19-1")       # "exactly the requested annotators": the tool creates them through continuum.add(name, ...)
    from .c13 import add_guard_obligation
    add_guard_obligation(ctx, "R-C19-2")      # "only positive-duration units": every perturbation inserts through add(), whose guard refuses empty segments
    rule_perturbations(ctx)
    rule_driver(ctx)
