"""C02 - the best alignment has minimal disorder among all alignments (DESIGN 4/C02): formulation, not optimisation."""
from __future__ import annotations

from ..core import Ctx
from . import ilp, nbk

FN = "Continuum.get_best_alignment"


def run(ctx: Ctx):
    ctx.clauses += [
        "R-C02-1 objective Minimize(disorders . x) in every solver branch, over the disorders of the same candidates A was built from",
        "R-C02-2 pruning is the paper's cut and not tighter: cost <= C(n,2)*n*delta_empty on the raw pair-sum (polynomial identity), so no candidate of an optimal alignment is discarded",
        "R-C02-3 candidate cost = sum over all unordered annotator pairs of matrix[a][b][t[a], t[b]], normalised once by C(n,2)",
        "R-C02-4 pair matrices fully initialised: real cells d_mat(unit_a, unit_b), last row/column delta_empty",
        "R-C02-5 iter_tuples is the mixed-radix odometer over sizes (every tuple exactly once)",
        "R-C02-6 the constraint matrix and the decoding use the same candidates/ids as the objective (a chosen candidate's cost is the one minimised)",
    ]
    ctx.not_decided += ["optimality of the solver's answer", "float32 rounding of the costs",
                        "that the n*delta_empty cut is mathematically safe (Mathet et al. 2015, section 5.1.1: taken from the paper)"]
    ctx.assumptions += ["cvxpy/CBC/GLPK return an optimum of the posed ILP", "delta_empty > 0"]
    F = ilp.analyse(ctx, FN, "R-C02-1")
    ilp.check_formulation(ctx, F, {"problems": "R-C02-1", "objective": "R-C02-1", "same-candidates": "R-C02-6", "variable": "R-C02-6"},
                          1.0, 1.0, "partition")
    ctx.floor("R-C02-1", 2, "objectives (one per solver branch)")
    nbk.check_candidates(ctx, {"c2n": "R-C02-2", "filter-op": "R-C02-2", "threshold": "R-C02-2", "filter-extra": "R-C02-2",
                               "cost-domain": "R-C02-3", "cost-term": "R-C02-3", "cost-closed": "R-C02-3", "final-normalise": "R-C02-3",
                               "matrix-domain": "R-C02-4", "matrix-alloc": "R-C02-4", "matrix-cover": "R-C02-4",
                               "source": "R-C02-5", "sizes-with-null": "R-C02-5", "append": "R-C02-6", "final-return": "R-C02-6"})
    nbk.check_odometer(ctx, "R-C02-5")
    # the minimum is taken over what the constraint matrix lets the solver choose: column j of A must be candidate j's own units
    nbk.check_build_A(ctx, {"A-shape": "R-C02-6", "A-offset": "R-C02-6", "A-cell": "R-C02-6", "A-null": "R-C02-6"})
    ilp.check_decoding(ctx, F, {"same-ids": "R-C02-6", "ua-disorder": "R-C02-6", "cached": "R-C02-6"}, "Alignment")
