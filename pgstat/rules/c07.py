"""C07 - candidate unitary alignments are exactly those under the n*delta_empty cut (DESIGN 4/C07)."""
from __future__ import annotations

from ..core import Ctx, VIOLATED, UNDECIDED
from . import nbk

RULES = {
    "c2n": "R-C07-3", "sizes-with-null": "R-C07-1", "source": "R-C07-1",
    "filter-op": "R-C07-3", "threshold": "R-C07-3", "filter-extra": "R-C07-3", "filter-looser": "R-C07-3",
    "cost-domain": "R-C07-2", "cost-term": "R-C07-2", "cost-closed": "R-C07-2",
    "matrix-domain": "R-C07-2", "matrix-alloc": "R-C07-2", "matrix-cover": "R-C07-2",
    "append": "R-C07-4", "append-unique": "R-C07-4",
    "cap-init": "R-C07-5", "cap-const": "R-C07-5", "growth-test": "R-C07-5", "growth-same": "R-C07-5", "growth-positive": "R-C07-5",
    "final-slice": "R-C07-7", "final-normalise": "R-C07-7", "final-return": "R-C07-7",
}


def run(ctx: Ctx):
    ctx.clauses += [
        "R-C07-1 candidates come from iter_tuples(sizes_with_null) with sizes_with_null[a] = len(units_a)+1",
        "R-C07-2 candidate cost = sum over all unordered annotator pairs of the fully initialised pair matrix cell (real: d_mat, empty: delta_empty)",
        "R-C07-3 filter keeps cost <= C(n,2)*n*delta_empty (equality of the threshold as a polynomial, operator <=)",
        "R-C07-4 append discipline: cost and tuple stored at the same index, one increment, nothing else writes the index",
        "R-C07-5 capacity invariant index < capacity == len(buffers) at every store (growth test ==/>= right after the increment, equal growth of both buffers and of the capacity, growth >= 1)",
        "R-C07-6 extend_right_*: new length = old + n, prefix copied",
        "R-C07-7 both results cut to [: i-1] and costs divided once by C(n,2)",
        "R-C07-8 the dropped last element is the all-empty tuple: odometer order (all-maximal digits last) + it always passes the filter",
    ]
    ctx.not_decided += ["float32 comparison exactly at the threshold", "int16 overflow above 32767 units per annotator (outside the property's range)"]
    ctx.assumptions += ["numba compiles the kernels with Python semantics except bounds checks and fixed-width numbers", "delta_empty > 0"]
    nbk.check_candidates(ctx, RULES)
    nbk.check_extend(ctx, "R-C07-6")
    nbk.check_odometer(ctx, "R-C07-8")
    # R-C07-8: argument chain - holds iff its premises were discharged
    prem = [o for o in ctx.obls if o.key.split("|")[-1] in ("od-init", "od-yield", "od-advance", "od-stop", "sizes-with-null",
                                                             "matrix-cover", "threshold", "filter-op", "source")]
    bad = [o for o in prem if o.verdict in (VIOLATED, UNDECIDED)]
    f = ctx.model.functions.get(nbk.CAND)
    if len(prem) >= 9 and not bad:
        ctx.ok("R-C07-8", f, None, "the last enumerated tuple has every digit at its maximum = the empty unit of every annotator (odometer), its cost "
               "C(n,2)*delta_empty passes the filter for n >= 1, so it is the last stored candidate and [: i-1] removes exactly it; i >= 1",
               construct="(argument from R-C07-1/2/3 and the odometer)", key="drop-all-empty")
    else:
        ctx.undecided("R-C07-8", f, None, f"premises not all discharged ({len(prem)} found, {len(bad)} failing): cannot conclude that the dropped "
                      f"element is the all-empty tuple", construct="(argument)", key="drop-all-empty") if not bad else \
            ctx.ok("R-C07-8", f, None, "premise violated elsewhere (reported there)", construct="(argument)", key="drop-all-empty")
