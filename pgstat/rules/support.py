"""Supporting accessors (R-SUP): one-line specifications of the small accessors the main paths read the continuum / the alignment through.

Every property's rules analyse a handful of functions and *call* these accessors.  A rule that reads `continuum.num_units` as "the number of
units" is only as good as that accessor, so each property's check also discharges the specification of every accessor reachable (resolved
call graph) from the functions it analysed.  C13 owns them and checks all of them; for the other properties this closes the trust boundary
(tools/trust_boundary.py lists what remains)."""
from __future__ import annotations

import ast
import copy as _c
from typing import Dict, Optional, Set

from ..core import Ctx
from ..model import body_stmts, canon, norm, walk_no_nested
from .common import conditions_at as _conditions_at, expand_locals, prog, quant_norm

SPECS: Dict[str, Set[str]] = {
    "Continuum.num_units": {"sum((len(units) for units in self._annotations.values()))"},
    "Continuum.num_annotators": {"len(self._annotations)"},
    "Continuum.__len__": {"len(self._annotations)"},
    "Continuum.categories": {"self._categories"},
    "Continuum.bounds": {"(self.bound_inf, self.bound_sup)"},
    "Continuum.annotators": {"SortedSet(self._annotations.keys())", "SortedSet(self._annotations)"},
    "Continuum.__bool__": {"not all((len(annotations) == 0 for annotations in self._annotations.values()))",
                           "any((len(annotations) > 0 for annotations in self._annotations.values()))",
                           "self.num_units > 0", "self.num_units != 0"},
    "Continuum.avg_num_annotations_per_annotator": {"self.num_units / self.num_annotators"},
    "Continuum.avg_length_unit": {"sum((unit.segment.duration for _, unit in self)) / self.num_units",
                                  "sum((unit.segment.duration for annotator, unit in self)) / self.num_units"},
    "Alignment.__iter__": {"iter(self.unitary_alignments)"},
    "Alignment.num_annotators": {"len(self.unitary_alignments[0].n_tuple)"},
}
GENERATORS = ("Continuum.__iter__", "Continuum.iter_annotator", "Continuum.copy_flush", "Continuum.category_weights")


def _single_return(f) -> Optional[ast.AST]:
    """the accessor as one return statement: its body when it is one, or the early-exit search loop
    `for T in IT: if C: return <bool>` + `return <other bool>` read as `[not] any(C for T in IT)`"""
    b = body_stmts(f.node)
    if len(b) == 1 and isinstance(b[0], ast.Return) and b[0].value is not None:
        return b[0]
    if len(b) == 2 and isinstance(b[0], ast.For) and not b[0].orelse and len(b[0].body) == 1 and isinstance(b[0].body[0], ast.If) and not b[0].body[0].orelse \
            and len(b[0].body[0].body) == 1 and isinstance(b[0].body[0].body[0], ast.Return) and isinstance(b[1], ast.Return):
        inner, outer = b[0].body[0].body[0].value, b[1].value
        if isinstance(inner, ast.Constant) and isinstance(outer, ast.Constant) and isinstance(inner.value, bool) and isinstance(outer.value, bool) and inner.value != outer.value:
            q = ast.Call(func=ast.Name(id="any", ctx=ast.Load()), keywords=[],
                         args=[ast.GeneratorExp(elt=b[0].body[0].test, generators=[ast.comprehension(target=b[0].target, iter=b[0].iter, ifs=[], is_async=0)])])
            v = q if inner.value else ast.UnaryOp(op=ast.Not(), operand=q)
            r = ast.Return(value=v)
            ast.copy_location(r, b[0])
            ast.fix_missing_locations(r)
            return r
    return None


def _map_as_generator(v: ast.AST) -> ast.AST:
    """`map(f, X)` (f a plain name) is the generator `(f(e) for e in X)`"""
    class T(ast.NodeTransformer):
        def visit_Call(self, n):
            self.generic_visit(n)
            if isinstance(n.func, ast.Name) and n.func.id == "map" and len(n.args) == 2 and not n.keywords and isinstance(n.args[0], ast.Name):
                e = ast.Name(id="e__", ctx=ast.Load())
                return ast.GeneratorExp(elt=ast.Call(func=n.args[0], args=[e], keywords=[]),
                                        generators=[ast.comprehension(target=ast.Name(id="e__", ctx=ast.Store()), iter=n.args[1], ifs=[], is_async=0)])
            return n
    return ast.fix_missing_locations(T().visit(_c.deepcopy(v)))


def check_accessor(ctx: Ctx, qn: str, rule: str = "R-SUP") -> None:
    M = ctx.model
    if qn not in M.functions:
        ctx.undecided(rule, None, None, f"accessor {qn} not found (anchor vanished)", construct=qn, key=f"accessor:{qn}")
        return
    f = ctx.fn(qn, rule)
    sn = f.self_name
    if qn == "Continuum.__iter__":
        loops = [n for n in walk_no_nested(f.node) if isinstance(n, ast.For)]
        ok = len(loops) == 2 and norm(loops[0].iter) == f"{sn}._annotations.items()" and isinstance(loops[0].target, ast.Tuple) and \
            any(isinstance(n, ast.Yield) and norm(n.value) == f"({norm(loops[0].target.elts[0])}, {norm(loops[1].target)})"
                for n in ast.walk(loops[1])) and norm(loops[1].iter) == norm(loops[0].target.elts[1]) and \
            not any(isinstance(n, (ast.If, ast.Break, ast.Continue, ast.Return)) for n in walk_no_nested(f.node))
        ctx.check(ok, rule, f, loops[0] if loops else None, "__iter__ yields every (annotator, unit) in dictionary-then-set order", key="iter")
        return
    if qn == "Continuum.copy_flush":
        # a fresh Continuum carrying the scalar settings only: no annotator, no unit, no category comes along
        news = [s for s in walk_no_nested(f.node) if isinstance(s, ast.Assign) and len(s.targets) == 1 and isinstance(s.targets[0], ast.Name) and
                isinstance(s.value, ast.Call) and norm(s.value.func) in ("Continuum", "type(self)", f"{sn}.__class__", "self.__class__")]
        rets = [r for r in walk_no_nested(f.node) if isinstance(r, ast.Return)]
        if len(news) != 1 or len(rets) != 1 or norm(rets[0].value) != news[0].targets[0].id:
            ctx.undecided(rule, f, None, "copy_flush is not `c = Continuum(...); <scalar settings>; return c` (not a verdict)", key="copy-flush", construct="copy_flush")
            return
        nv = news[0].targets[0].id
        fills = [c for c in walk_no_nested(f.node) if isinstance(c, ast.Call) and isinstance(c.func, ast.Attribute) and norm(c.func.value).split(".")[0] == nv and
                 c.func.attr in ("add", "add_annotator", "add_annotation", "add_timeline", "merge", "add_textgrid", "add_elan")]
        stores = [s for s in walk_no_nested(f.node) if isinstance(s, (ast.Assign, ast.AugAssign)) for t in (s.targets if isinstance(s, ast.Assign) else [s.target])
                  for x in ([t] if not isinstance(t, ast.Tuple) else t.elts) if isinstance(x, (ast.Attribute, ast.Subscript)) and norm(x).split(".")[0].split("[")[0] == nv
                  and norm(x) not in (f"{nv}.bound_inf", f"{nv}.bound_sup", f"{nv}.best_window_size", f"{nv}.uri")]
        extra_args = [a for a in list(news[0].value.args[1:]) + [k.value for k in news[0].value.keywords if k.arg != "uri"]]
        if fills:
            ctx.bad(rule, f, fills[0], f"copy_flush puts annotators / units into the continuum it returns (`{norm(fills[0])[:70]}`): a sample built on it starts with them, "
                    f"next to the annotators the sampler adds", key="copy-flush")
        elif stores or extra_args:
            ctx.undecided(rule, f, (stores or [news[0]])[0], "copy_flush hands more than the scalar settings (uri, bounds, window size) to the new continuum (not a verdict)",
                          key="copy-flush")
        else:
            ctx.ok(rule, f, news[0], "copy_flush returns a fresh continuum without annotators, units or categories (scalar settings only)", key="copy-flush")
        return
    if qn == "Continuum.category_weights":
        # an ordered mapping label -> share of the units carrying it, keyed by the labels exactly as the units carry them (the shuffling tool draws
        # new labels from its keys and looks a unit's own label up in it)
        import re as _re
        fixed = [k for c in ast.walk(f.node) if isinstance(c, ast.Call) for k in c.keywords if k.arg == "dtype" and isinstance(k.value, ast.Constant) and
                 isinstance(k.value.value, str) and _re.fullmatch(r"[<>|=]?[USa]\d+", k.value.value)]
        if fixed:
            ctx.bad(rule, f, fixed[0].value, f"category_weights passes the labels through a fixed-width string buffer (dtype={fixed[0].value.value!r}): longer labels are cut, "
                    f"so its keys are not the labels the units carry (labels sharing the prefix are merged, a unit's own label is not found)", key="category-weights")
            return
        rets = [r for r in walk_no_nested(f.node) if isinstance(r, ast.Return)]
        W = norm(rets[0].value) if len(rets) == 1 and isinstance(rets[0].value, ast.Name) else None
        wdef = [s_ for s_ in walk_no_nested(f.node) if isinstance(s_, ast.Assign) and W and norm(s_.targets[0]) == W]
        loops = [L for L in walk_no_nested(f.node) if isinstance(L, ast.For) and norm(L.iter) in (sn, f"enumerate({sn})", f"enumerate({sn}, 1)", f"enumerate({sn}, start=1)")]
        if not (W and len(wdef) == 1 and norm(wdef[0].value) == "SortedDict()" and len(loops) == 1):
            ctx.undecided(rule, f, None, "category_weights is not `w = SortedDict(); for _, unit in self: count unit.annotation in w; normalise; return w` (not a verdict)",
                          key="category-weights", construct="category_weights")
            return
        L = loops[0]
        tnames = [x.id for x in ast.walk(L.target) if isinstance(x, ast.Name)]
        u = tnames[-1] if tnames else None
        keys = [t.slice for s_ in ast.walk(L) if isinstance(s_, (ast.Assign, ast.AugAssign)) for t in (s_.targets if isinstance(s_, ast.Assign) else [s_.target])
                if isinstance(t, ast.Subscript) and norm(t.value) == W]
        if not keys:
            ctx.undecided(rule, f, L, "category_weights: no count stored under a key inside the loop over the units (not a verdict)", key="category-weights")
            return
        ctx.check(all(norm(expand_locals(f.node, k)) == f"{u}.annotation" for k in keys), rule, f, L,
                  "category_weights is keyed by the labels exactly as the units carry them, in a sorted mapping",
                  bad_detail=f"category_weights counts under `{norm(expand_locals(f.node, keys[0]))}`, not under the unit's label itself: its keys are not the labels the units carry",
                  key="category-weights")
        # ... and the value under a label is (number of units carrying it) / (number of units): counted by ones, divided once by a count of the units
        K = f"{u}.annotation"
        counts = []      # (node, what it adds / sets, ok)
        for s_ in ast.walk(L):
            if isinstance(s_, ast.AugAssign) and isinstance(s_.target, ast.Subscript) and norm(s_.target.value) == W:
                counts.append((s_, isinstance(s_.op, ast.Add) and norm(s_.value) == "1"))
            elif isinstance(s_, ast.Assign) and isinstance(s_.targets[0], ast.Subscript) and norm(s_.targets[0].value) == W:
                v = norm(s_.value)
                first = any(isinstance(t, ast.Compare) and isinstance(t.ops[0], ast.In) and norm(t.comparators[0]) == W and not pol or
                            isinstance(t, ast.Compare) and isinstance(t.ops[0], ast.NotIn) and norm(t.comparators[0]) == W and pol
                            for t, pol in _conditions_at(f.node, s_))
                counts.append((s_, (v == "1" and first) or v in (f"{W}.get({K}, 0) + 1", f"1 + {W}.get({K}, 0)")))
        # the number of units: a local started at 0 and stepped by 1 once per unit, the index of enumerate(self, start=1), or self.num_units / len
        n_names = set()
        for s_ in L.body:
            if isinstance(s_, ast.AugAssign) and isinstance(s_.target, ast.Name) and isinstance(s_.op, ast.Add) and norm(s_.value) == "1":
                inits = [a for a in walk_no_nested(f.node) if isinstance(a, ast.Assign) and norm(a.targets[0]) == s_.target.id]
                if len(inits) == 1 and norm(inits[0].value) == "0":
                    n_names.add(s_.target.id)
        if isinstance(L.iter, ast.Call) and norm(L.iter.func) == "enumerate" and norm(L.iter) in (f"enumerate({sn}, 1)", f"enumerate({sn}, start=1)") and isinstance(L.target, ast.Tuple):
            n_names.add(norm(L.target.elts[0]))
        n_names |= {f"{sn}.num_units"}
        divs = [s_ for s_ in walk_no_nested(f.node) if isinstance(s_, ast.AugAssign) and isinstance(s_.op, ast.Div) and isinstance(s_.target, ast.Subscript) and
                norm(s_.target.value) == W]
        div_ok = len(divs) == 1 and norm(divs[0].value) in n_names
        if div_ok:
            dl = [x for x in walk_no_nested(f.node) if isinstance(x, ast.For) and any(y is divs[0] for y in x.body)]
            div_ok = len(dl) == 1 and len(dl[0].body) == 1 and norm(dl[0].iter) in (f"{W}.keys()", W, f"list({W})", f"list({W}.keys())") and \
                norm(divs[0].target.slice) == norm(dl[0].target) and dl[0] is not L and not any(y is dl[0] for y in ast.walk(L))
        # both halves of the count: started at one where the label is new, stepped by one where it is not (or the one-statement `get(k, 0) + 1` form)
        has_get = any(isinstance(n_, ast.Assign) and ".get(" in norm(n_.value) for n_, _ in counts)
        complete = has_get or (any(isinstance(n_, ast.AugAssign) for n_, _ in counts) and any(isinstance(n_, ast.Assign) for n_, _ in counts))
        if counts and divs and not complete:
            ctx.bad(rule, f, L, "category_weights: a label's count is not both started at one (label seen for the first time) and stepped by one (label seen again): "
                    "its values are not the number of units carrying each label", key="category-weights-values")
            return
        if not counts or not divs:
            ctx.undecided(rule, f, L, "category_weights: the counting by ones / the division by the number of units was not found in the recognised shape (not a verdict)",
                          key="category-weights-values")
        else:
            ctx.check(all(ok for _, ok in counts) and div_ok, rule, f, divs[0],
                      "category_weights: each unit adds one to its label's count, every count is divided once by the number of units",
                      bad_detail="category_weights is not (number of units carrying the label) / (number of units): " +
                                 ("a count is not started at / stepped by one; " if not all(ok for _, ok in counts) else "") +
                                 ("the counts are not each divided once by a count of the units" if not div_ok else ""), key="category-weights-values")
        return
    if qn == "Continuum.iter_annotator":
        loops = [n for n in walk_no_nested(f.node) if isinstance(n, ast.For)]
        p = f.params[1] if len(f.params) > 1 else "annotator"
        ok = len(loops) == 1 and norm(loops[0].iter) == f"{sn}._annotations[{p}]" and len(loops[0].body) == 1 and isinstance(loops[0].body[0], ast.Expr) and \
            isinstance(loops[0].body[0].value, ast.Yield) and norm(loops[0].body[0].value.value) == norm(loops[0].target)
        yf = [n for n in walk_no_nested(f.node) if isinstance(n, ast.YieldFrom)]
        ok = ok or (not loops and len(yf) == 1 and norm(yf[0].value) in (f"{sn}._annotations[{p}]", f"iter({sn}._annotations[{p}])"))
        if ok:
            ctx.ok(rule, f, loops[0] if loops else yf[0], "iter_annotator yields every unit of that annotator's set, in the set's order", key="iter-annotator")
        else:
            ctx.undecided(rule, f, None, "iter_annotator is not `for unit in self._annotations[annotator]: yield unit` (not a verdict)", key="iter-annotator",
                          construct="iter_annotator")
        return
    accepted = SPECS[qn]
    if qn == "Continuum.annotators":
        from .common import check_annotator_order
        check_annotator_order(ctx, rule, judge=ctx.prop in ("C10", "C13"))
    r = _single_return(f)
    got = None
    if r is not None:
        v = _map_as_generator(expand_locals(f.node, r.value))
        if isinstance(v, ast.Call) and v.args and isinstance(v.args[0], ast.ListComp):      # sum([...]) and sum((...)) are the same aggregate
            v = _c.deepcopy(v)
            v.args[0] = ast.GeneratorExp(elt=v.args[0].elt, generators=v.args[0].generators)
        got = canon(quant_norm(v))
        if sn and sn != "self":
            got = got.replace(sn + ".", "self.")
    ok = got is not None and got in {canon(quant_norm(ast.parse(a, mode="eval").body)) for a in accepted}
    if ok:
        ctx.ok(rule, f, r, f"{qn} == {norm(r.value)}", key="accessor")
    elif got is None:
        ctx.undecided(rule, f, None, f"accessor {qn} is not a single return expression (not a verdict)", key="accessor")
    else:
        ctx.bad(rule, f, r, f"{qn} returns `{norm(r.value)}`; specification accepts {sorted(accepted)}", key="accessor")


def check_reachable_support(ctx: Ctx, rule: str = "R-SUP") -> int:
    """specification of every supporting accessor reachable from the functions this property's rules analysed and not yet looked at by them"""
    M = ctx.model
    done = {o.function for o in ctx.obls}
    roots = sorted(q for q in ctx.functions_analysed if q in M.functions)
    try:
        reach = set(prog(ctx).reachable(roots))
    except Exception:
        return 0
    n = 0
    for qn in list(SPECS) + list(GENERATORS):
        if qn in reach and qn not in done:
            check_accessor(ctx, qn, rule)
            n += 1
    # any other property getter on the way: read as "computed from the object's current state".  One that stores into the object keeps an
    # answer for later reads (a cache): whether every mutator invalidates it is a history argument this property's rules do not make.
    for qn in sorted(reach | {q for q in ctx.functions_analysed if q in M.functions}):
        g = M.functions.get(qn)
        if g is None or g.kind != "property" or not g.self_name or isinstance(g.node, ast.Lambda):
            continue
        st = [s for s in walk_no_nested(g.node) if isinstance(s, (ast.Assign, ast.AugAssign, ast.AnnAssign)) and getattr(s, "value", None) is not None and
              any(isinstance(t, (ast.Attribute, ast.Subscript)) and norm(t).split(".")[0].split("[")[0] == g.self_name
                  for t in (s.targets if isinstance(s, ast.Assign) else [s.target]))]
        if not st:
            continue
        if g.qualname in ("Alignment.disorder", "UnitaryAlignment.disorder"):
            continue          # the disorder caches of the pinned tree: owned by C03's rules (R-C03-3 / R-C03-4)
        n += 1
        ctx.undecided(rule, g, st[0], f"the accessor {qn} stores into the object it is read from (`{norm(st[0])[:70]}`): it answers later reads from that store; "
                      f"whether every mutator refreshes it is not decided here (not a verdict; the rules on the mutators' effect sets judge it)", key=f"accessor-writes:{qn}")
    return n
