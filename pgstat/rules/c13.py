"""C13 - a continuum behaves as sorted unit sets per annotator under any history (DESIGN 4/C13).

Inductive representation invariant RI: `_annotations: annotator -> SortedSet[Unit]` ordered by a strict total
order consistent with ==, `_categories` contains every label in use, bounds enclose every unit.
"""
from __future__ import annotations

import ast
from typing import Dict, List, Optional, Set, Tuple

from ..cases import Interp, Lin, Oracle, Sym, Undecided
from ..cfg import CFG, ENTRY, EXIT, RAISE
from ..core import Ctx
from ..flow import AV
from ..model import AnalysisError, FuncInfo, canon, dotted, norm, walk_no_nested, body_stmts, kwarg
from .common import bound_args, check_annotator_key, check_annotator_order, check_segment_verbatim, conditions_at, enclosing, is_cmp, expand_locals, prog, quant_norm, resolve_local

RI_FIELDS = ("_annotations", "_categories", "bound_inf", "bound_sup")
# named friend sites outside class Continuum that may write the representation, one reason each
FRIENDS = {
    ("CorpusShufflingTool.corpus_from_reference", "store ._categories"):
        "presets the category set of the continuum it has just created (empty, so RI holds); value must be a fresh set",
    ("CorpusShufflingTool.corpus_from_reference", "store .bound_inf"):
        "presets the bounds of the new continuum to the reference's before copying its units (add only widens them)",
    ("CorpusShufflingTool.corpus_from_reference", "store .bound_sup"):
        "presets the bounds of the new continuum to the reference's before copying its units (add only widens them)",
    ("CorpusShufflingTool.splits_shuffle", "call .pop"):
        "pops one unit from an annotator's set: a removal cannot break order, category coverage or bounds",
}


# ---------------------------------------------------------------------------------------------
# R-C13-1
# ---------------------------------------------------------------------------------------------
class UnitOracle(Oracle):
    """one case: order of the two segments, kind of each label (N = None, E = empty string, S = non-empty), order of two non-empty labels"""

    def __init__(self, seg: int, ka: str, kb: str, lab: int):
        self.seg, self.ka, self.kb, self.lab = seg, ka, kb, lab

    def _kind(self, s: Sym) -> str:
        return self.ka if s.name.startswith("A.") else self.kb

    def cmp_sym(self, a: Sym, b: Sym) -> int:
        if a.domain != b.domain:
            raise Undecided(f"comparison across domains: {a} ? {b}")
        sign = 1 if a.name.startswith("A.") else -1
        if a.domain == "seg":
            return sign * self.seg
        if a.domain == "str":
            ka, kb = self._kind(a), self._kind(b)
            if ka == "E" or kb == "E":
                return 0 if ka == kb else (-1 if ka == "E" else 1)      # "" is the least string
            return sign * self.lab
        raise Undecided(f"{a} ? {b}")

    def is_none(self, v):
        if isinstance(v, Sym) and v.domain == "str":
            return self._kind(v) == "N"
        return False

    def is_empty(self, v):
        return self._kind(v) == "E"


def unit_cases():
    for seg in (-1, 0, 1):
        for ka in "NES":
            for kb in "NES":
                if ka == "S" and kb == "S":
                    for lab in (-1, 0, 1):
                        yield (seg, ka, kb, lab)
                else:
                    yield (seg, ka, kb, 0)


def _lab_cmp(ka, kb, lab) -> int:
    """documented label order: unlabelled first, then ordinary string order ("" before any other label)"""
    rank = {"N": 0, "E": 1, "S": 2}
    if ka != kb:
        return -1 if rank[ka] < rank[kb] else 1
    return lab if ka == "S" else 0


def spec_lt(seg, ka, kb, lab) -> bool:
    """documented order: segment first, then label, unlabelled first"""
    if seg != 0:
        return seg < 0
    return _lab_cmp(ka, kb, lab) < 0


def case_name(c) -> str:
    seg, ka, kb, lab = c
    s = {-1: "seg<", 0: "seg=", 1: "seg>"}[seg]
    nm = {"N": "None", "E": "''", "S": "str"}
    l = f"{nm[ka]}/{nm[kb]}" + ({-1: "(lab<)", 0: "(lab=)", 1: "(lab>)"}[lab] if ka == kb == "S" else "")
    return f"{s},{l}"


def eval_lt(f: FuncInfo, case) -> bool:
    a = f.node.args.args
    if len(a) != 2:
        raise Undecided("__lt__ must take (self, other)")
    A, B = Sym("A", "unit"), Sym("B", "unit")

    def attr(base, name):
        if isinstance(base, Sym) and base.domain == "unit":
            if name == "segment":
                return Sym(f"{base.name}.segment", "seg")
            if name == "annotation":
                return Sym(f"{base.name}.annotation", "str")
        return NotImplemented
    it = Interp(UnitOracle(*case), {a[0].arg: A, a[1].arg: B}, attr=attr)
    kind, val = it.run(body_stmts(f.node))
    if kind != "return" or not isinstance(val, bool):
        raise Undecided(f"__lt__ does not return a boolean in case {case_name(case)} ({kind}: {val!r})")
    return val


def rule_unit_order(ctx: Ctx):
    M = ctx.model
    ctx.require("Unit" in M.classes, "R-C13-1", "class Unit not found")
    U = M.classes["Unit"]
    f = U.methods.get("__lt__")
    ctx.require(f is not None, "R-C13-1", "Unit.__lt__ not found")
    ctx.functions_analysed.add(f.qualname)
    # decorators: total_ordering derives the other comparisons from __lt__ and __eq__; dataclass eq over the same fields
    decos = U.decorators
    ctx.check(any(d.endswith("total_ordering") for d in decos), "R-C13-1", f, U.node,
              "@total_ordering derives <=, >, >= from __lt__ and the dataclass __eq__", construct="decorators of Unit",
              key="total_ordering")
    dc = [d for d in U.node.decorator_list if "dataclass" in norm(d)]
    frozen = any(isinstance(d, ast.Call) and isinstance(kwarg(d, "frozen"), ast.Constant) and kwarg(d, "frozen").value is True for d in dc)
    eq_off = any(isinstance(d, ast.Call) and isinstance(kwarg(d, "eq"), ast.Constant) and kwarg(d, "eq").value is False for d in dc)
    order_on = any(isinstance(d, ast.Call) and isinstance(kwarg(d, "order"), ast.Constant) and kwarg(d, "order").value is True for d in dc)
    ctx.check(bool(dc) and frozen and not eq_off and not order_on, "R-C13-1", f, U.node,
              "frozen dataclass with generated __eq__/__hash__ (units are immutable set members)",
              construct="@dataclass(frozen, eq)", key="dataclass")
    flds = list(U.annotations)
    ctx.check(flds == ["segment", "annotation"], "R-C13-1", f, U.node,
              f"dataclass equality compares exactly the fields the order compares: {flds}", construct="fields of Unit",
              key="fields")
    table = {}
    for c in unit_cases():
        try:
            table[c] = eval_lt(f, c)
        except Undecided as e:
            ctx.undecided("R-C13-1", f, None, f"case {case_name(c)}: {e}", construct=case_name(c))
            return
    n = 0
    for c, got in table.items():
        exp = spec_lt(*c)
        n += 1
        ctx.check(got == exp, "R-C13-1", f, None,
                  f"case {case_name(c)}: __lt__ = {got}, documented order (segment, then label, unlabelled first) = {exp}",
                  construct=f"case {case_name(c)}", key=f"case {case_name(c)}")
    # order axioms read off the table (mirror case = swap operands)
    for c, got in table.items():
        seg, ka, kb, lab = c
        mirror = (-seg, kb, ka, -lab)
        equal = seg == 0 and _lab_cmp(ka, kb, lab) == 0
        if equal:
            ctx.check(not got, "R-C13-1", f, None, f"irreflexive on equal units ({case_name(c)}): u < u must be False "
                      "(SortedSet bisects with <; a reflexive order breaks lookup and removal)",
                      construct=f"irreflexive {case_name(c)}", key=f"irreflexive {case_name(c)}")
        else:
            ctx.check(got != table[mirror], "R-C13-1", f, None,
                      f"asymmetric and total on distinct units ({case_name(c)}): exactly one of a<b, b<a",
                      construct=f"trichotomy {case_name(c)}", key=f"trichotomy {case_name(c)}")
    ctx.notes["abstract_cases"] = {"Unit.__lt__": {"cases": len(table), "exhaustive": True}}
    # the order just decided is the order of the unit sets only while they are built without a key function: SortedSet(key=k) sorts,
    # bisects and deduplicates by k(unit), and Unit.__lt__ is out of the picture
    n_sets = 0
    for g in list(M.functions.values()):
        if isinstance(g.node, ast.Lambda):
            continue
        for c in walk_no_nested(g.node):
            if not (isinstance(c, ast.Call) and dotted(c.func) in ("SortedSet", "sortedcontainers.SortedSet", "SortedList", "SortedKeyList")):
                continue
            n_sets += 1
            keyf = next((k.value for k in c.keywords if k.arg == "key"), c.args[1] if len(c.args) > 1 else None)
            if keyf is None or (isinstance(keyf, ast.Constant) and keyf.value is None):
                continue
            body = None
            if isinstance(keyf, ast.Lambda):
                body, kp = keyf.body, [a.arg for a in keyf.args.args]
            elif isinstance(keyf, ast.Name) and keyf.id in M.functions and not isinstance(M.functions[keyf.id].node, ast.Lambda):
                kf = M.functions[keyf.id]
                rs = [r for r in walk_no_nested(kf.node) if isinstance(r, ast.Return) and r.value is not None]
                body, kp = (rs[0].value if len(rs) == 1 else None), kf.params
            reads_unit = body is not None and any(isinstance(a, ast.Attribute) and a.attr in ("segment", "annotation") for a in ast.walk(body))
            if body is not None and not reads_unit:
                continue                      # a key over something that is not a Unit (annotator names, categories): not the unit order
            conflate = [b for b in (ast.walk(body) if body is not None else []) if isinstance(b, ast.BoolOp) and isinstance(b.op, ast.Or) and
                        any(isinstance(v, ast.Attribute) and v.attr == "annotation" for v in b.values) and any(isinstance(v, ast.Constant) for v in b.values)]
            if conflate:
                ctx.bad("R-C13-1", g, c, f"the unit set is ordered by a key function in which `{norm(conflate[0])}` gives the unlabelled unit and the unit labelled "
                        f"{norm(next(v for v in conflate[0].values if isinstance(v, ast.Constant)))} the same rank: the documented order puts the unlabelled one first, "
                        f"with this key the two keep their insertion order (and, with equal keys, count as duplicates of each other)", key="unit-set-key")
            else:
                ctx.undecided("R-C13-1", g, c, f"a sorted container of units is built with a key function (`{norm(keyf)}`): its order is the key's, not Unit.__lt__ "
                              f"that this rule decided (not a verdict)", key="unit-set-key")
    check_annotator_order(ctx, "R-C13-1", judge=True)
    ctx.check(n_sets >= 1, "R-C13-1", f, None, f"{n_sets} sorted-container constructions in the package, none of a unit set with a key function: the sets are ordered by Unit.__lt__",
              bad_detail="no SortedSet construction found in the package", construct="unit sets ordered by __lt__", key="unit-set-order")


# ---------------------------------------------------------------------------------------------
# R-C13-2 who may write the representation
# ---------------------------------------------------------------------------------------------
def rule_who_may_write(ctx: Ctx):
    M, p = ctx.model, prog(ctx)
    hits = 0
    for f in M.all_functions(include_notebook=True):
        if f.cls is not None and f.cls.name == "Continuum":
            continue
        for fl in p.flows_of(f):
            for m in fl.mutations:
                if m.via:
                    continue
                fld = None
                own = None
                if m.how.startswith("store .") and m.how[7:] in RI_FIELDS:
                    t = p.av_type(fl, m.av)
                    if t is not None and t.name == "Continuum":
                        fld, own = m.how[7:], m.av
                if fld is None:
                    for k, step in enumerate(m.av.path):
                        if step in ("_annotations", "_categories"):
                            t = p.av_type(fl, AV(m.av.root, m.av.path[:k]))
                            if t is not None and t.name == "Continuum":
                                fld, own = step, AV(m.av.root, m.av.path[:k])
                                break
                        if step in ("_annotations", "_categories") and p.av_type(fl, AV(m.av.root, m.av.path[:k])) is None \
                                and m.av.kind != "fresh":
                            fld, own = step, AV(m.av.root, m.av.path[:k])
                            break
                if fld is None:
                    continue
                hits += 1
                how = m.how if m.how.startswith("store .") else m.how.split(" (")[0]
                reason = FRIENDS.get((f.qualname, how))
                if reason is None:
                    ctx.bad("R-C13-2", f, m.node, f"{m.how} on {m.av}: the representation field `{fld}` of a Continuum is written "
                            f"outside class Continuum (not a listed friend site)", key=f"{how}|{fld}")
                    continue
                okv = True
                if how == "store ._categories":
                    vals = [v for (o, fd, vs, nd) in fl.store_nodes if nd is m.node and fd == "_categories" for v in vs]
                    okv = bool(vals) and all(v.kind == "fresh" for v in vals)
                    if own is not None and own.kind != "fresh":
                        okv = False
                ctx.check(okv, "R-C13-2", f, m.node, f"friend site: {reason}",
                          bad_detail="friend site stores a category set that is not freshly allocated, or writes a continuum it did not create",
                          key=f"{how}|{fld}")
    ctx.floor("R-C13-2", 3, "friend-site writes of the representation (positive control)")


# ---------------------------------------------------------------------------------------------
# R-C13-3 add / add_annotator / remove
# ---------------------------------------------------------------------------------------------
def _is_self_attr(e: ast.AST, sn: str, attr: str) -> bool:
    return isinstance(e, ast.Attribute) and e.attr == attr and isinstance(e.value, ast.Name) and e.value.id == sn


def _annots_sub(e: ast.AST, sn: str) -> Optional[ast.AST]:
    """self._annotations[K] -> K"""
    if isinstance(e, ast.Subscript) and _is_self_attr(e.value, sn, "_annotations"):
        return e.slice
    return None


def add_guard_obligation(ctx: Ctx, rule: str):
    """add(): the zero-duration guard always raises and dominates every write to the continuum - a refused add leaves no trace (what
    `from_csv(discard_invalid_rows=True)` relies on when it swallows the ValueError and carries on)"""
    M, p = ctx.model, prog(ctx)
    f = ctx.fn("Continuum.add", rule)
    sn = f.self_name
    params = f.params
    ctx.require(len(params) >= 4, rule, "Continuum.add(self, annotator, segment, annotation) expected")
    p_ann, p_seg, p_lab = params[1], params[2], params[3]
    cfg = CFG(f.node)
    # (a) zero-duration guard
    guards = []
    for n in walk_no_nested(f.node):
        if isinstance(n, ast.If) and any(isinstance(x, ast.Attribute) and x.attr in ("duration",) and
                                         isinstance(x.value, ast.Name) and x.value.id == p_seg for x in ast.walk(n.test)):
            gid = cfg.node_of(n)
            first = cfg.node_of(n.body[0])
            always_raises = first is not None and cfg.exits_after(first) == {RAISE} and \
                isinstance(n.test, ast.Compare) and len(n.test.ops) == 1 and \
                isinstance(n.test.ops[0], (ast.Eq, ast.LtE)) and \
                isinstance(n.test.comparators[0], ast.Constant) and n.test.comparators[0].value in (0, 0.0)
            if always_raises:
                guards.append(gid)
                # what is raised is the ValueError the readers catch - building its message must not raise something else first.  The guard runs before
                # the annotator is registered: a look-up of this call's annotator in the mapping is a KeyError for every annotator without units yet.
                for r_ in [x for x in n.body if isinstance(x, ast.Raise) and isinstance(x.exc, ast.Call)]:
                    for a_ in list(r_.exc.args) + [k.value for k in r_.exc.keywords]:
                        for x in ast.walk(a_):
                            if isinstance(x, ast.Subscript) and norm(x.value).startswith(f"{sn}."):
                                ctx.bad(rule, f, r_, f"the message of the zero-length error reads `{norm(x)}`: the guard runs before the annotator is registered, so for an "
                                        f"annotator without units yet this look-up raises KeyError and add() raises that instead of the ValueError its callers "
                                        f"(from_csv's discard / reject handling) catch", key="guard-message")
                            elif isinstance(x, (ast.Subscript, ast.BinOp)) and not isinstance(getattr(x, "op", None), (ast.Add, ast.Sub, ast.Mult, ast.Mod)) or \
                                    (isinstance(x, ast.Call) and (dotted(x.func) or "?") not in ("str", "repr", "len", "round", "float", "int", "format", "type", "abs")):
                                ctx.undecided(rule, f, r_, f"the message of the zero-length error evaluates `{norm(x)[:60]}`, which may itself raise before the ValueError is "
                                              f"raised (not a verdict)", key="guard-message")
    # what `duration == 0` means is pyannote's: a segment no longer than SEGMENT_PRECISION (1e-6 unless someone changes it) has duration 0.  The
    # package itself must not move that threshold: done at import time it silently turns every shorter unit of every input into a rejected one
    for m_ in M.modules.values():
        for st_ in ast.walk(m_.tree):
            tg_ = st_.targets if isinstance(st_, ast.Assign) else [st_.target] if isinstance(st_, (ast.AugAssign, ast.AnnAssign)) else []
            hit = next((t for t in tg_ if isinstance(t, ast.Attribute) and t.attr == "SEGMENT_PRECISION"), None)
            if hit is None and isinstance(st_, ast.Expr) and isinstance(st_.value, ast.Call) and isinstance(st_.value.func, ast.Attribute) and st_.value.func.attr == "set_precision":
                hit = st_.value
            if hit is None:
                continue
            at_import = any(st_ is x for top in m_.tree.body if not isinstance(top, (ast.FunctionDef, ast.AsyncFunctionDef, ast.ClassDef)) for x in ast.walk(top))
            if at_import:
                ctx.bad(rule, None, None, f"{m_.relpath}:{getattr(st_, 'lineno', '?')} `{norm(st_)}` runs when the package is imported: it moves pyannote's threshold for an empty segment, "
                        f"so add()'s zero-length guard (and pyannote's own loaders) now reject every unit shorter than the new threshold - valid rows of an input "
                        f"file are dropped or refused", construct="SEGMENT_PRECISION", key="guard-precision")
            else:
                ctx.undecided(rule, None, None, f"{m_.relpath}:{getattr(st_, 'lineno', '?')} `{norm(st_)}` changes pyannote's threshold for an empty segment from inside the package: "
                              f"which units add() rejects then depends on whether that code has run (not a verdict)", construct="SEGMENT_PRECISION", key="guard-precision")
    fl = p.flow(f)
    writes = [m for m in fl.mutations if m.av.kind == "param" and m.av.name == sn]
    wnodes = {cfg.node_containing(m.node) for m in writes}
    wnodes.discard(None)
    if not guards:
        ctx.bad(rule, f, None, "no guard rejecting zero-length segments (raise ValueError when segment.duration == 0) "
                "before the first write", construct="zero-duration guard", key="guard")
    else:
        g = guards[0]
        ctx.check(all(cfg.dominates(g, w) for w in wnodes) and bool(wnodes), rule, f, cfg.stmts[g],
                  f"zero-duration guard dominates all {len(wnodes)} writes of add()",
                  bad_detail="a write of add() can execute without passing the zero-duration guard", key="guard")
    return guards


def rule_add(ctx: Ctx):
    M, p = ctx.model, prog(ctx)
    f = ctx.fn("Continuum.add", "R-C13-3")
    sn = f.self_name
    params = f.params
    ctx.require(len(params) >= 4, "R-C13-3", "Continuum.add(self, annotator, segment, annotation) expected")
    p_ann, p_seg, p_lab = params[1], params[2], params[3]
    cfg = CFG(f.node)
    check_annotator_key(ctx, "R-C13-3")
    check_segment_verbatim(ctx, "R-C13-3")
    guards = add_guard_obligation(ctx, "R-C13-3")
    fl = p.flow(f)
    # (b) insertion on every normal exit
    ins = None
    for n in walk_no_nested(f.node):
        if isinstance(n, ast.Call) and isinstance(n.func, ast.Attribute) and n.func.attr == "add" and \
                _annots_sub(n.func.value, sn) is not None and len(n.args) == 1:
            ins = n
    if ins is None:
        ctx.bad("R-C13-3", f, None, "no insertion self._annotations[annotator].add(Unit(...))", construct="insertion", key="insert")
    else:
        key = _annots_sub(ins.func.value, sn)
        u = resolve_local(f.node, ins.args[0])
        ok_unit = isinstance(u, ast.Call) and dotted(u.func) == "Unit" and \
            [norm(a) for a in u.args] + [f"{k.arg}={norm(k.value)}" for k in u.keywords] in (
                [p_seg, p_lab], [f"segment={p_seg}", f"annotation={p_lab}"], [p_seg, f"annotation={p_lab}"])
        ok_key = isinstance(key, ast.Name) and key.id == p_ann
        nid = cfg.node_containing(ins)
        must = nid is not None and cfg.must_pass(EXIT, {nid})
        ctx.check(ok_unit and ok_key and must, "R-C13-3", f, ins,
                  "every normal exit of add() has inserted Unit(segment, annotation) into the annotator's own set",
                  bad_detail=f"insertion is wrong or can be skipped (unit args ok={ok_unit}, key ok={ok_key}, on every path={must})",
                  key="insert")
    # (c) category registered
    cat = None
    for n in walk_no_nested(f.node):
        if isinstance(n, ast.Call) and isinstance(n.func, ast.Attribute) and n.func.attr == "add" and \
                _is_self_attr(n.func.value, sn, "_categories"):
            cat = n
    if cat is None:
        ctx.bad("R-C13-3", f, None, "label is never added to self._categories", construct="category registration", key="category")
    else:
        ifs = enclosing(f.node, cat, (ast.If,))
        nid = cfg.node_containing(cat)
        arg_ok = len(cat.args) == 1 and isinstance(cat.args[0], ast.Name) and cat.args[0].id == p_lab
        guard_ok = True
        anchor = nid
        for i in ifs:
            t = i.test
            is_lab_test = isinstance(t, ast.Compare) and isinstance(t.left, ast.Name) and t.left.id == p_lab and \
                len(t.ops) == 1 and isinstance(t.ops[0], ast.IsNot) and isinstance(t.comparators[0], ast.Constant) and \
                t.comparators[0].value is None
            in_body = any(cat is x for b in i.body for x in ast.walk(b))
            if i.test is not None and any(cfg.node_of(i) == g for g in guards):
                continue
            if not (is_lab_test and in_body):
                guard_ok = False
            else:
                anchor = cfg.node_of(i)
        must = anchor is not None and cfg.must_pass(EXIT, {anchor})
        ctx.check(arg_ok and guard_ok and must, "R-C13-3", f, cat,
                  "every normal exit of add() with a label has registered it in _categories (guard: `annotation is not None` only)",
                  bad_detail=f"category registration can be skipped (arg ok={arg_ok}, only guarded by the None test={guard_ok}, on every path={must})",
                  key="category")
    # (d) bounds widened
    for fld, fn_, attr in (("bound_inf", "min", "start"), ("bound_sup", "max", "end")):
        st = None
        for n in walk_no_nested(f.node):
            if isinstance(n, ast.Assign) and any(_is_self_attr(t, sn, fld) for t in n.targets):
                st = n
        if st is None:
            ctx.bad("R-C13-3", f, None, f"{fld} is not updated by add()", construct=f"self.{fld} = ...", key=fld)
            continue
        v = st.value
        args = {norm(a) for a in v.args} if isinstance(v, ast.Call) and dotted(v.func) in (fn_, f"np.{fn_}imum") else set()
        okv = args == {f"{sn}.{fld}", f"{p_seg}.{attr}"}
        nid = cfg.node_of(st)
        must = nid is not None and cfg.must_pass(EXIT, {nid})
        if not okv and norm(v) == f"{p_seg}.{attr}":
            # the guarded spelling of the same update:  if segment.start < self.bound_inf: self.bound_inf = segment.start
            gi = enclosing(f.node, st, (ast.If,))
            op = "<" if fn_ == "min" else ">"
            if gi and len(gi[-1].body) == 1 and not gi[-1].orelse and (is_cmp(gi[-1].test, f"{p_seg}.{attr}", op, f"{sn}.{fld}") or
                                                                       is_cmp(gi[-1].test, f"{p_seg}.{attr}", op + "=", f"{sn}.{fld}")):
                okv = True
                nid = cfg.node_of(gi[-1])
                must = nid is not None and cfg.must_pass(EXIT, {nid})
        ctx.check(okv and must, "R-C13-3", f, st, f"{fld} = {fn_}({fld}, segment.{attr}) on every normal exit: bounds enclose every added unit",
                  bad_detail=f"bounds update is wrong or can be skipped (expression ok={okv}, on every path={must})", key=fld)
    # (e) creation of an empty set only when the key is absent (add and add_annotator)
    for qn in ("Continuum.add", "Continuum.add_annotator"):
        g = ctx.fn(qn, "R-C13-3")
        gs = g.self_name
        found = 0
        for n in walk_no_nested(g.node):
            if isinstance(n, ast.Assign) and len(n.targets) == 1 and _annots_sub(n.targets[0], gs) is not None:
                found += 1
                key = norm(_annots_sub(n.targets[0], gs))
                ok = False
                for t, truth in conditions_at(g.node, n):
                    if isinstance(t, ast.Compare) and len(t.ops) == 1 and norm(t.left) == key and _is_self_attr(t.comparators[0], gs, "_annotations") and \
                            ((isinstance(t.ops[0], ast.NotIn) and truth) or (isinstance(t.ops[0], ast.In) and not truth)):
                        ok = True
                fresh = isinstance(n.value, ast.Call) and dotted(n.value.func) == "SortedSet" and not n.value.args
                ctx.check(ok and fresh, "R-C13-3", g, n, "an annotator's set is created empty and only when the annotator is absent",
                          bad_detail="an existing annotator's unit set can be overwritten", key="create-set")
        if qn == "Continuum.add_annotator" and not found:
            ctx.bad("R-C13-3", g, None, "add_annotator never creates the annotator's set", construct="create", key="create-set")
    # (e2) closedness: add / add_annotator / reset_bounds have exactly the effects the invariant argument accounts for
    def effects_of(qn):
        g = ctx.fn(qn, "R-C13-3")
        gf = p.flow(g)
        return g, {(str(m.av), m.how.split(" (")[0]) for m in gf.mutations if m.av.kind == "param"}
    expected = {
        "Continuum.add": {("param:self._annotations", "subscript store"), ("param:self._categories", "call .add"), ("param:self._annotations[]", "call .add"),
                          ("param:self", "store .bound_inf"), ("param:self", "store .bound_sup")},
        "Continuum.add_annotator": {("param:self._annotations", "subscript store")},
        "Continuum.reset_bounds": {("param:self", "store .bound_inf"), ("param:self", "store .bound_sup")},
    }
    for qn, want in expected.items():
        g, eff = effects_of(qn)
        extra = sorted(eff - want)
        ctx.check(not extra, "R-C13-3", g, None, f"{qn} has no effect beyond {sorted(x[1] + ' on ' + x[0].replace('param:', '') for x in want)}",
                  bad_detail=f"{qn} also does {extra}: an effect the representation-invariant argument does not account for "
                             f"(e.g. removing or replacing units while adding, touching another field)", construct=f"(effects of {qn.split('.')[-1]})", key=f"effects:{qn}")
    # (f) remove touches only the annotator's own set
    r = ctx.fn("Continuum.remove", "R-C13-3")
    rf = p.flow(r)
    eff = {(str(m.av), m.how.split(" (")[0]) for m in rf.mutations if m.av.kind == "param"}
    ctx.check(eff == {("param:self._annotations[]", "call .remove")}, "R-C13-3", r, None,
              "remove() only removes from the annotator's set (bounds and categories untouched, as documented)",
              bad_detail=f"remove() has other effects: {sorted(eff)}", construct="(effects of remove)", key="remove")
    key_ok = any(isinstance(n, ast.Subscript) and _annots_sub(n, r.self_name) is not None and
                 norm(_annots_sub(n, r.self_name)) == r.params[1] for n in walk_no_nested(r.node))
    ctx.check(key_ok, "R-C13-3", r, None, "remove() addresses the set of the given annotator", construct="self._annotations[annotator]",
              key="remove-key")


# ---------------------------------------------------------------------------------------------
# R-C13-4 copy / copy_flush completeness
# ---------------------------------------------------------------------------------------------
def _carried_fields(ctx: Ctx, f: FuncInfo, depth: int = 0) -> Dict[str, ast.AST]:
    """fields of the new continuum that `f` derives from the same field of self (syntactic, through the constructor too, and through
    another method of self that builds the new continuum, e.g. copy() written on top of copy_flush())"""
    M = ctx.model
    sn = f.self_name
    init = M.classes["Continuum"].methods["__init__"]
    isn = init.self_name
    # constructor parameter -> field
    ctor_map = {}
    for n in walk_no_nested(init.node):
        if isinstance(n, (ast.Assign, ast.AnnAssign)):
            tgts = n.targets if isinstance(n, ast.Assign) else [n.target]
            for t in tgts:
                if isinstance(t, ast.Attribute) and isinstance(t.value, ast.Name) and t.value.id == isn and \
                        isinstance(n.value, ast.Name) and n.value.id in init.params:
                    ctor_map[n.value.id] = t.attr
    carried: Dict[str, ast.AST] = {}
    newvar = None
    for n in walk_no_nested(f.node):
        if isinstance(n, ast.Assign) and isinstance(n.value, ast.Call) and dotted(n.value.func) in ("Continuum", "cls", "type(self)", f"{sn}.__class__") \
                and isinstance(n.targets[0], ast.Name):
            newvar = n.targets[0].id
            ips = init.params[1:]
            for i, a in enumerate(n.value.args):
                if i < len(ips) and ips[i] in ctor_map and _mentions_self_field(a, sn, ctor_map[ips[i]]):
                    carried[ctor_map[ips[i]]] = n
            for k in n.value.keywords:
                if k.arg in ctor_map and _mentions_self_field(k.value, sn, ctor_map[k.arg]):
                    carried[ctor_map[k.arg]] = n
        elif isinstance(n, ast.Assign) and isinstance(n.value, ast.Call) and isinstance(n.value.func, ast.Attribute) and \
                norm(n.value.func.value) == sn and not n.value.args and not n.value.keywords and isinstance(n.targets[0], ast.Name) and depth < 2:
            builder = M.find_method(M.classes["Continuum"], n.value.func.attr)
            if builder is not None and builder is not f and not isinstance(builder.node, ast.Lambda):
                try:
                    inner = _carried_fields(ctx, builder, depth + 1)
                except AnalysisError:
                    continue
                ctx.functions_analysed.add(builder.qualname)
                newvar = n.targets[0].id
                for k in inner:
                    carried[k] = n
    if newvar is None:
        raise AnalysisError("R-C13-4", f"{f.qualname}: construction of the new continuum not found")
    for n in walk_no_nested(f.node):
        if isinstance(n, ast.Assign):
            for t in n.targets:
                pairs = []
                if isinstance(t, ast.Tuple) and isinstance(n.value, ast.Tuple) and len(t.elts) == len(n.value.elts):
                    pairs = list(zip(t.elts, n.value.elts))
                elif isinstance(t, ast.Tuple):
                    pairs = [(e, n.value) for e in t.elts]
                else:
                    pairs = [(t, n.value)]
                for tt, vv in pairs:
                    if isinstance(tt, ast.Attribute) and isinstance(tt.value, ast.Name) and tt.value.id == newvar:
                        if _mentions_self_field(vv, sn, tt.attr):
                            carried[tt.attr] = n
    ret_ok = any(isinstance(n, ast.Return) and isinstance(n.value, ast.Name) and n.value.id == newvar for n in walk_no_nested(f.node))
    if not ret_ok:
        raise AnalysisError("R-C13-4", f"{f.qualname}: does not return the continuum it builds")
    return carried


def _mentions_self_field(e: ast.AST, sn: str, fld: str) -> bool:
    if any(_is_self_attr(x, sn, fld) for x in ast.walk(e)):
        return True
    if fld in ("bound_inf", "bound_sup"):
        return any(_is_self_attr(x, sn, "bounds") for x in ast.walk(e))
    return False


def rule_copy(ctx: Ctx):
    M = ctx.model
    fields = M.class_fields("Continuum")
    init_fields = sorted(k for k, v in fields.items() if any(f.name == "__init__" for f, _ in v))
    ctx.require(len(init_fields) >= 5, "R-C13-4", f"fields of Continuum.__init__: {init_fields}")
    ctx.notes["continuum_fields"] = init_fields
    cp = ctx.fn("Continuum.copy", "R-C13-4")
    carried = _carried_fields(ctx, cp)
    for fld in init_fields:
        ctx.check(fld in carried, "R-C13-4", cp, carried.get(fld), f"copy() carries field `{fld}`",
                  bad_detail=f"copy() does not carry field `{fld}` set by __init__: the copy silently loses it",
                  construct=f"field {fld}", key=f"copy:{fld}")
    cf = ctx.fn("Continuum.copy_flush", "R-C13-4")
    carried = _carried_fields(ctx, cf)
    for fld in init_fields:
        if fld == "_annotations":
            ctx.check(fld not in carried, "R-C13-4", cf, carried.get(fld), "copy_flush() starts without annotators/units",
                      bad_detail="copy_flush() carries the units", construct=f"field {fld}", key=f"flush:{fld}")
        elif fld == "_categories":
            continue     # may be empty or carried (derived from the units)
        else:
            ctx.check(fld in carried, "R-C13-4", cf, carried.get(fld), f"copy_flush() carries field `{fld}`",
                      bad_detail=f"copy_flush() does not carry field `{fld}`", construct=f"field {fld}", key=f"flush:{fld}")


# ---------------------------------------------------------------------------------------------
# R-C13-5 merge
# ---------------------------------------------------------------------------------------------
def rule_merge(ctx: Ctx):
    M, p = ctx.model, prog(ctx)
    f = ctx.fn("Continuum.merge", "R-C13-5")
    sn = f.self_name
    ctx.require("in_place" in f.params, "R-C13-5", "merge(..., in_place) expected")
    other = f.params[1]
    uses = [n for n in walk_no_nested(f.node) if isinstance(n, ast.Name) and n.id == "in_place" and isinstance(n.ctx, ast.Load)]
    target_var = None
    okuses = True
    for u in uses:
        ifexp = enclosing(f.node, u, (ast.IfExp,))
        ifs = enclosing(f.node, u, (ast.If,))
        if ifexp and any(u is x for x in ast.walk(ifexp[-1].test)):
            ie = ifexp[-1]
            t_true, t_false = (ie.body, ie.orelse)
            if isinstance(ie.test, ast.UnaryOp):
                t_true, t_false = t_false, t_true
            good = isinstance(t_true, ast.Name) and t_true.id == sn and norm(t_false) == f"{sn}.copy()"
            asg = enclosing(f.node, ie, (ast.Assign,))
            if good and asg and isinstance(asg[-1].targets[0], ast.Name):
                target_var = asg[-1].targets[0].id
            else:
                okuses = False
        elif ifs and any(u is x for x in ast.walk(ifs[-1].test)):
            i = ifs[-1]
            pos = isinstance(i.test, ast.Name)
            neg = isinstance(i.test, ast.UnaryOp) and isinstance(i.test.op, ast.Not) and isinstance(i.test.operand, ast.Name)
            sel = (pos or neg) and len(i.body) == 1 and len(i.orelse) == 1 and all(isinstance(s, ast.Assign) and isinstance(s.targets[0], ast.Name) for s in i.body + i.orelse) \
                and norm(i.body[0].targets[0]) == norm(i.orelse[0].targets[0])
            if sel:
                t_true, t_false = (i.body[0].value, i.orelse[0].value) if pos else (i.orelse[0].value, i.body[0].value)
                if isinstance(t_true, ast.Name) and t_true.id == sn and norm(t_false) == f"{sn}.copy()":
                    target_var = norm(i.body[0].targets[0])
                else:
                    okuses = False
            elif not (all(isinstance(s, ast.Return) for s in i.body) and not i.orelse):
                okuses = False
        else:
            okuses = False
    ctx.check(okuses and target_var is not None and len(uses) >= 1, "R-C13-5", f, None,
              "in_place only selects the target (self / self.copy()) and the return: one code path for both modes",
              bad_detail="in_place influences more than the choice of target and the return value: the two modes can diverge",
              construct="uses of in_place", key="single-path")
    if target_var:
        adds = [n for n in walk_no_nested(f.node) if isinstance(n, ast.Call) and isinstance(n.func, ast.Attribute)
                and isinstance(n.func.value, ast.Name) and n.func.value.id == target_var]
        names = {n.func.attr for n in adds}
        add_call = next((n for n in adds if n.func.attr == "add"), None)
        ok_add = False
        if add_call is not None:
            loops = enclosing(f.node, add_call, (ast.For,))
            if loops:
                lp = loops[-1]
                it = norm(lp.iter)
                tg = [x.id for x in ast.walk(lp.target) if isinstance(x, ast.Name)]
                if it == other and len(tg) == 2 and [norm(a) for a in add_call.args] == [tg[0], f"{tg[1]}.segment", f"{tg[1]}.annotation"]:
                    ok_add = True
        recognised = add_call is not None and bool(enclosing(f.node, add_call, (ast.For,))) and \
            norm(enclosing(f.node, add_call, (ast.For,))[-1].iter) == other
        if ok_add or recognised:
            ctx.check(ok_add, "R-C13-5", f, add_call, "every (annotator, unit) of the merged continuum is added with its own segment and label",
                      bad_detail="units of the other continuum are not re-added with their own annotator, segment and label", key="units")
        else:
            ctx.undecided("R-C13-5", f, add_call, "merge does not re-add the other continuum's units with `for annotator, unit in other: target.add(...)`: "
                          "shape not recognised (not a verdict)", key="units")
        ann_call = next((n for n in adds if n.func.attr == "add_annotator"), None)
        ok_ann = False
        if ann_call is not None:
            loops = enclosing(f.node, ann_call, (ast.For,))
            if loops and norm(loops[-1].iter) in (f"{other}.annotators", f"{other}._annotations", f"{other}._annotations.keys()") \
                    and norm(ann_call.args[0]) == norm(loops[-1].target):
                ok_ann = True
        if ok_ann or ann_call is not None or (ok_add or recognised):
            ctx.check(ok_ann, "R-C13-5", f, ann_call, "every annotator of the merged continuum exists afterwards, even without units",
                      bad_detail="annotators without units are lost by merge (no add_annotator for every annotator of the other continuum)", key="annotators")
        else:
            ctx.undecided("R-C13-5", f, None, "how merge creates the other continuum's annotators is not recognised (not a verdict)", key="annotators")
        # which value each mode returns: walk the top-level block with the polarity of in_place known after each `if [not] in_place:`
        def flag_test(t):
            if isinstance(t, ast.Name) and t.id == "in_place":
                return True
            if isinstance(t, ast.UnaryOp) and isinstance(t.op, ast.Not) and isinstance(t.operand, ast.Name) and t.operand.id == "in_place":
                return False
            return None

        outcomes = []      # (mode or None for both, returned expression text or None for no value, node)

        def walk_block(stmts, mode) -> bool:
            """returns True when the block always returns (for the given mode)"""
            for st in stmts:
                if isinstance(st, ast.Return):
                    val = None if st.value is None or (isinstance(st.value, ast.Constant) and st.value.value is None) else norm(st.value)
                    outcomes.append((mode, val, st))
                    return True
                if isinstance(st, ast.If):
                    pol = flag_test(st.test)
                    if pol is not None:
                        if mode is None:
                            t1 = walk_block(st.body, pol)
                            t2 = walk_block(st.orelse, not pol)
                            if t1 and t2:
                                return True
                            if t1:
                                mode = not pol
                            elif t2:
                                mode = pol
                        else:
                            if walk_block(st.body if mode == pol else st.orelse, mode):
                                return True
                    else:
                        if any(isinstance(x, ast.Return) for x in ast.walk(st)):
                            outcomes.append((mode, "?", st))
                elif any(isinstance(x, ast.Return) for x in ast.walk(st)):
                    outcomes.append((mode, "?", st))
            return False
        if not walk_block(body_stmts(f.node), None):
            outcomes.append(("fall", None, None))
        # out-of-place mode: every outcome it can reach returns the target
        out_modes = [(m, v, n) for (m, v, n) in outcomes if m in (None, False, "fall")]
        # `fall` is reached by every mode that did not return earlier
        returned_false = any(m in (None, False) and v is not None for (m, v, n) in outcomes if m != "fall")
        vals_false = [v for (m, v, n) in outcomes if m in (None, False)]
        if not vals_false and any(m == "fall" for (m, v, n) in outcomes):
            vals_false = [None]
        if "?" in [v for (_, v, _) in outcomes]:
            ctx.undecided("R-C13-5", f, None, "returns of merge depend on something other than in_place (not a verdict)", key="return")
        else:
            ctx.check(bool(vals_false) and all(v == target_var for v in vals_false), "R-C13-5", f,
                      next((n for (m, v, n) in outcomes if m in (None, False) and n is not None), None),
                      "out-of-place merge returns the merged copy",
                      bad_detail=f"with in_place=False merge returns {vals_false or 'nothing'} instead of the merged copy `{target_var}`", key="return")
    a = ctx.fn("Continuum.__add__", "R-C13-5")
    body = body_stmts(a.node)
    ok = False
    if len(body) == 1 and isinstance(body[0], ast.Return) and isinstance(body[0].value, ast.Call) and norm(body[0].value.func) == f"{a.self_name}.merge":
        mf_ = ctx.model.functions.get("Continuum.merge")
        ba_ = bound_args(body[0].value, mf_) if mf_ is not None else None
        if ba_ is not None and len(mf_.params) >= 3:
            flag_ = ba_.get(mf_.params[2])
            default_false = False
            dflt = mf_.node.args.defaults
            if flag_ is None and dflt:
                default_false = isinstance(dflt[-1], ast.Constant) and dflt[-1].value is False
            ok = norm(ba_.get(mf_.params[1])) == a.params[1] and ((flag_ is not None and isinstance(flag_, ast.Constant) and flag_.value is False) or default_false)
    ctx.check(ok, "R-C13-5", a, body[0] if body else None, "__add__ is the out-of-place merge", key="add")


# ---------------------------------------------------------------------------------------------
# R-C13-6 equality
# ---------------------------------------------------------------------------------------------
def rule_eq(ctx: Ctx):
    f = ctx.fn("Continuum.__eq__", "R-C13-6")
    sn, on = f.self_name, f.params[1]
    cfg = CFG(f.node)
    body = body_stmts(f.node)
    # non-continuum -> False, first
    first = body[0] if body else None
    ok = isinstance(first, ast.If) and norm(first.test) in (f"not isinstance({on}, Continuum)",) and \
        len(first.body) == 1 and isinstance(first.body[0], ast.Return) and getattr(first.body[0].value, "value", 1) is False
    ctx.check(ok, "R-C13-6", f, first, "a non-continuum compares unequal, before anything else is read", key="isinstance")

    def disjuncts(t: ast.AST) -> List[str]:
        if isinstance(t, ast.BoolOp) and isinstance(t.op, ast.Or):
            return [d for v in t.values for d in disjuncts(v)]
        return [norm(t)]

    def ret_false_if(test_norms: Set[str]) -> Optional[ast.If]:
        # `if A or B: return False` is the same as two guards
        for n in walk_no_nested(f.node):
            if isinstance(n, ast.If) and set(disjuncts(n.test)) & test_norms and n.body and isinstance(n.body[0], ast.Return) and \
                    getattr(n.body[0].value, "value", 1) is False:
                return n
        return None
    t_ann = ret_false_if({f"{sn}.annotators != {on}.annotators", f"{on}.annotators != {sn}.annotators"})
    t_num = ret_false_if({f"{sn}.num_units != {on}.num_units", f"{on}.num_units != {sn}.num_units"})
    loop = next((n for n in walk_no_nested(f.node) if isinstance(n, ast.For) and
                 norm(n.iter) in (f"zip({sn}, {on})", f"zip({on}, {sn})")), None)
    true_rets = [n for n in walk_no_nested(f.node) if isinstance(n, ast.Return) and getattr(n.value, "value", 0) is True]
    ctx.check(t_ann is not None, "R-C13-6", f, t_ann, "different annotator sets compare unequal", construct="annotators test", key="annotators")
    ctx.check(t_num is not None, "R-C13-6", f, t_num, "different unit counts compare unequal (zip would truncate otherwise)",
              construct="num_units test", key="num_units")
    unit_test = False
    if loop is not None:
        tg = [x.id for x in ast.walk(loop.target) if isinstance(x, ast.Name)]
        if len(tg) == 4:
            tests = {d for n in ast.walk(loop) if isinstance(n, ast.If) and n.body and isinstance(n.body[0], ast.Return)
                     and getattr(n.body[0].value, "value", 1) is False for d in disjuncts(n.test)}
            unit_test = any(t in tests for t in (f"{tg[1]} != {tg[3]}", f"{tg[3]} != {tg[1]}")) and \
                any(t in tests for t in (f"{tg[0]} != {tg[2]}", f"{tg[2]} != {tg[0]}"))
    ctx.check(unit_test, "R-C13-6", f, loop, "units are compared pairwise in iteration order (annotator and unit)",
              construct="pairwise loop", key="pairwise")
    if true_rets and t_ann is not None and t_num is not None and loop is not None:
        need = [cfg.node_of(t_ann), cfg.node_of(t_num), cfg.node_of(loop)]
        for r in true_rets:
            rn = cfg.node_of(r)
            ctx.check(all(cfg.dominates(x, rn) for x in need), "R-C13-6", f, r,
                      "True is returned only after annotators, unit count and every unit pair were compared",
                      bad_detail="`return True` is reachable without all three comparisons", key="return-true")
    else:
        ctx.check(False, "R-C13-6", f, None, "", bad_detail="__eq__ lacks one of: annotators test, unit-count test, pairwise loop, return True",
                  construct="structure", key="return-true")
    ne = ctx.fn("Continuum.__ne__", "R-C13-6")
    b = body_stmts(ne.node)
    okne = len(b) == 1 and isinstance(b[0], ast.Return) and norm(b[0].value) in (
        f"not {ne.self_name} == {ne.params[1]}", f"not {ne.params[1]} == {ne.self_name}", f"not {ne.self_name}.__eq__({ne.params[1]})")
    ctx.check(okne, "R-C13-6", ne, b[0] if b else None, "__ne__ is the negation of __eq__", key="ne")


# ---------------------------------------------------------------------------------------------
# R-C13-7 reset_bounds / extremal-element rule
# ---------------------------------------------------------------------------------------------
def _classify_agg(f: FuncInfo, v: ast.AST, sn: str) -> Tuple[str, str, str]:
    """(aggregate, domain, element) of  min/max(<generator>, default=...)"""
    if not (isinstance(v, ast.Call) and dotted(v.func) in ("min", "max") and v.args):
        return ("?", "?", "?")
    agg = dotted(v.func)
    g = v.args[0]
    if not isinstance(g, (ast.GeneratorExp, ast.ListComp)):
        return (agg, "?", "?")
    elt = norm(g.elt)
    gens = g.generators
    sets_iter = (f"{sn}._annotations.values()",)
    if len(gens) == 1:
        it = norm(gens[0].iter)
        tv = norm(gens[0].target)
        if it in sets_iter:
            nonempty = [norm(c) for c in gens[0].ifs] in ([tv], [f"len({tv}) > 0"], [f"len({tv}) != 0"])
            for pat, dom in ((f"next(iter({tv}))", "first-of-each-set"), (f"{tv}[0]", "first-of-each-set"),
                             (f"next(reversed({tv}))", "last-of-each-set"), (f"{tv}[-1]", "last-of-each-set")):
                if elt.startswith(pat + "."):
                    return (agg, dom if nonempty else dom + "(unguarded)", elt[len(pat) + 1:])
            return (agg, "?", elt)
        if it == sn and isinstance(gens[0].target, ast.Tuple) and len(gens[0].target.elts) == 2 and not gens[0].ifs:
            u = norm(gens[0].target.elts[1])
            if elt.startswith(u + "."):
                return (agg, "all-units", elt[len(u) + 1:])
    if len(gens) == 2:
        it0, tv0 = norm(gens[0].iter), norm(gens[0].target)
        it1, tv1 = norm(gens[1].iter), norm(gens[1].target)
        if it0 in sets_iter and it1 == tv0 and not gens[1].ifs and all(norm(c) in (tv0,) for c in gens[0].ifs) \
                and elt.startswith(tv1 + "."):
            return (agg, "all-units", elt[len(tv1) + 1:])
    return (agg, "?", elt)


def rule_reset_bounds(ctx: Ctx):
    f = ctx.fn("Continuum.reset_bounds", "R-C13-7")
    sn = f.self_name
    seen = set()
    for n in walk_no_nested(f.node):
        if isinstance(n, ast.Assign):
            for t in n.targets:
                for fld, want_agg, want_el in (("bound_inf", "min", "segment.start"), ("bound_sup", "max", "segment.end")):
                    if _is_self_attr(t, sn, fld):
                        seen.add(fld)
                        agg, dom, el = _classify_agg(f, expand_locals(f.node, n.value), sn)
                        if agg != want_agg or el != want_el:
                            if dom == "?":
                                ctx.undecided("R-C13-7", f, n, f"unrecognised shape of the {fld} reset", key=fld)
                            else:
                                ctx.bad("R-C13-7", f, n, f"{fld} must be {want_agg} of {want_el} over the units; found {agg} of {el} over {dom}", key=fld)
                            continue
                        if dom == "all-units":
                            ctx.ok("R-C13-7", f, n, f"{fld} = {agg} of {el} over every unit of every annotator", key=fld)
                        elif dom == "first-of-each-set" and fld == "bound_inf":
                            ctx.ok("R-C13-7", f, n, "units are sorted by segment.start first, so the first unit of each non-empty set holds "
                                   "that annotator's smallest start (extremal element used for the primary sort key only)", key=fld)
                        elif dom in ("last-of-each-set", "first-of-each-set"):
                            ctx.bad("R-C13-7", f, n, f"extremal-element rule: the {dom.split('-')[0]} unit in sort order (start, end, label) is "
                                    f"extremal for segment.start only, not for {el}: a long early unit ([0,100] before [1,2]) is missed", key=fld)
                        elif dom.endswith("(unguarded)"):
                            ctx.bad("R-C13-7", f, n, "first/last element taken from a possibly empty set (StopIteration/IndexError)", key=fld)
                        else:
                            ctx.undecided("R-C13-7", f, n, f"unrecognised iteration domain for {fld}", key=fld)
    for fld in ("bound_inf", "bound_sup"):
        if fld not in seen:
            ctx.bad("R-C13-7", f, None, f"reset_bounds() does not reset {fld}", construct=fld, key=fld)


# ---------------------------------------------------------------------------------------------
# supporting accessors (R-SUP)
# ---------------------------------------------------------------------------------------------
def rule_accessors(ctx: Ctx):
    """one-line specifications of the accessors the property observes through (rules/support.py)"""
    from .support import check_accessor
    for qn in ("Continuum.num_units", "Continuum.num_annotators", "Continuum.__len__", "Continuum.categories", "Continuum.bounds", "Continuum.annotators",
               "Continuum.__bool__", "Continuum.avg_num_annotations_per_annotator", "Continuum.__iter__", "Continuum.iter_annotator"):
        check_accessor(ctx, qn)


def run(ctx: Ctx):
    ctx.clauses += [
        "R-C13-1 Unit.__lt__ evaluated abstractly on all 33 outcomes of its comparisons (3 segment orders x label kinds None / empty / non-empty and label orders): equals the documented lexicographic order, irreflexive, asymmetric, total; dataclass eq over the same fields",
        "R-C13-2 only class Continuum (plus 4 named friend sites with a reason each) writes _annotations/_categories/bounds",
        "R-C13-3 add(): zero-duration guard dominates every write; on every normal exit unit inserted under its annotator, label registered, bounds widened; sets created only when absent; remove() only removes",
        "R-C13-4 copy() carries every field __init__ sets; copy_flush() every field not derived from the units",
        "R-C13-5 merge(): one code path for both modes (in_place selects target and return only); every annotator and unit re-added; __add__ = out-of-place merge",
        "R-C13-6 __eq__: non-continuum False first; True only after annotators, unit count and pairwise units; __ne__ its negation",
        "R-C13-7 reset_bounds: min start / max end over all units (first-of-set allowed for the primary sort key only)",
        "R-SUP accessors (num_units, annotators, categories, bounds, __len__, __bool__, __iter__) match their one-line specification",
    ]
    ctx.not_decided += ["behaviour of sortedcontainers itself", "that _categories is minimal (never shrinks on remove: documented)",
                        "histories are covered by induction over the mutators, not enumerated"]
    ctx.assumptions += ["SortedSet bisects with __lt__ and iterates in sort order", "pyannote Segment is a frozen dataclass ordered by (start, end)"]
    rule_unit_order(ctx)
    rule_who_may_write(ctx)
    from .common import check_class_state
    check_class_state(ctx, "R-C13-2", judge=True)
    rule_add(ctx)
    rule_copy(ctx)
    rule_merge(ctx)
    rule_eq(ctx)
    rule_reset_bounds(ctx)
    rule_accessors(ctx)
