"""C16 - shuffle sampler: wrapped translations with separated pivots (DESIGN 4/C16)."""
from __future__ import annotations

import ast
from fractions import Fraction
from typing import Dict, List, Optional, Tuple

from ..cases import Interp, Lin, Obj, Oracle, RankOracle, Sym, Undecided, weak_orderings
from ..cfg import CFG, EXIT
from ..core import Ctx
from ..model import AnalysisError, FuncInfo, canon, dotted, kwarg, norm, walk_no_nested
from .common import assigned_value, check_sampler_init, conditions_at, else_part, enclosing, expand_locals, pargs, prog, resolve_local

TERMS = {"S": Lin.atom("S"), "E": Lin.atom("E"),
         "L": Lin.atom("pivot") - Lin.atom("dist"), "H": Lin.atom("pivot") + Lin.atom("dist")}


def orderings():
    for r in weak_orderings(["S", "E", "L", "H"]):
        if r["S"] < r["E"] and r["L"] < r["H"]:
            yield r


def ordering_name(r: Dict[str, int]) -> str:
    by = {}
    for k, v in r.items():
        by.setdefault(v, []).append(k)
    return " < ".join("=".join(sorted(by[k])) for k in sorted(by))


def expected_pieces(r) -> List[Tuple[str, str]]:
    """[S,E] minus the open zone (L,H), as pairs of class representatives"""
    def rep(n):
        return min(m for m in r if r[m] == r[n])
    out = []
    if r["S"] < r["L"]:
        out.append((rep("S"), rep("E") if r["E"] <= r["L"] else rep("L")))
    if r["E"] > r["H"]:
        out.append((rep("S") if r["S"] >= r["H"] else rep("H"), rep("E")))
    return sorted(out)


def rule_subtraction(ctx: Ctx):
    f = ctx.fn("ShuffleContinuumSampler._remove_pivot_segment", "R-C16-1")
    ps = f.params
    ctx.require(len(ps) == 3, "R-C16-1", f"_remove_pivot_segment(pivot, segments, dist) expected, found {ps}")
    p_pivot, p_segs, p_dist = ps
    # the loop that consumes the segments one by one
    loops = [n for n in walk_no_nested(f.node) if isinstance(n, (ast.While, ast.For))]
    ctx.require(len(loops) == 1, "R-C16-1", "exactly one loop over the segments expected")
    lp = loops[0]
    body = list(lp.body)
    segvar = None
    if isinstance(lp, ast.While):
        ok_head = norm(lp.test) in (f"len({p_segs}) > 0", f"len({p_segs}) != 0", p_segs, f"len({p_segs})", f"0 < len({p_segs})")
        first = body[0] if body else None
        if ok_head and isinstance(first, ast.Assign) and isinstance(first.targets[0], ast.Name) and \
                norm(first.value) in (f"{p_segs}.pop()", f"{p_segs}.pop(0)", f"{p_segs}.pop(-1)"):
            segvar = first.targets[0].id
            body = body[1:]
    else:
        if norm(lp.iter) in (p_segs, f"list({p_segs})", f"reversed({p_segs})") and isinstance(lp.target, ast.Name):
            segvar = lp.target.id
        elif norm(lp.iter) == f"range(len({p_segs}))" and body and isinstance(body[0], ast.Assign) and isinstance(body[0].targets[0], ast.Name) and \
                norm(body[0].value) in (f"{p_segs}.pop()", f"{p_segs}.pop(0)", f"{p_segs}.pop(-1)") and \
                not any(isinstance(c, ast.Call) and isinstance(c.func, ast.Attribute) and norm(c.func.value) == p_segs and c.func.attr in ("append", "extend", "insert")
                        for b in body for c in ast.walk(b)):
            # as many pops as the list had elements, nothing put back into it: every segment once
            segvar = body[0].targets[0].id
            body = body[1:]
    if segvar is None:
        ctx.undecided("R-C16-1", f, lp, "loop does not visit every available segment once (while len(segments) > 0: pop / for segment in segments)")
        return
    exits = [n for b in body for n in ast.walk(b) if isinstance(n, (ast.Break, ast.Return))]
    if exits:
        ctx.bad("R-C16-1", f, exits[0], "early exit from the per-segment loop: the segments still in the list bypass the subtraction of the pivot zone. "
                "The list is not kept sorted (pieces are appended in pop order), so a skipped segment may contain the pivot and stays available: "
                "a later pivot can land closer than the minimal distance", key="loop-early-exit")
        return
    ctx.ok("R-C16-1", f, lp, "the loop visits every available segment exactly once", key="loop")
    # output list
    rets = [n for n in walk_no_nested(f.node) if isinstance(n, ast.Return)]
    ctx.require(len(rets) == 1 and isinstance(rets[0].value, ast.Name), "R-C16-1", "single `return <list>` expected")
    outvar = rets[0].value.id
    inits = assigned_value(f.node, outvar)
    ctx.check(len(inits) == 1 and isinstance(inits[0], ast.List) and not inits[0].elts, "R-C16-1", f, rets[0],
              "result list starts empty and is returned", key="result-list")

    SEG = Sym("segment", "segobj")

    def attr(base, name):
        if base is SEG or (isinstance(base, Sym) and base.domain == "segobj"):
            if name == "start":
                return TERMS["S"]
            if name == "end":
                return TERMS["E"]
        return NotImplemented

    def call(it: Interp, e: ast.Call, name):
        if name == "Segment" and len(e.args) == 2:
            return Obj("Segment", (it.ev(e.args[0]), it.ev(e.args[1])))
        return NotImplemented

    n_cases = 0
    for r in orderings():
        n_cases += 1
        oracle = RankOracle(r, TERMS)
        env = {p_pivot: Lin.atom("pivot"), p_dist: Lin.atom("dist"), segvar: SEG}
        # locals defined before the loop (e.g. lo, hi = pivot - dist, pivot + dist)
        pre = Interp(oracle, env, attr=attr, call=call)
        try:
            for s in f.node.body:
                if s is lp:
                    break
                if isinstance(s, ast.Assign) and not (isinstance(s.value, ast.List)):
                    pre.stmt(s)
            it = Interp(oracle, pre.env, attr=attr, call=call)
            kind, _ = it.run(body)
            if kind not in ("fall", "continue"):
                raise Undecided(f"loop body ends with {kind}")
            got = []
            for v in it.emit.appended.get(outvar, []):
                if not (isinstance(v, Obj) and v.ctor == "Segment"):
                    raise Undecided(f"appended value {v!r} is not Segment(a, b)")
                a, b = v.fields
                if a is TERMS["S"] and b is TERMS["E"]:
                    pass
                if oracle.sign_lin(b - a) <= 0:
                    got.append(("EMPTY", f"{oracle.name_of(a)}..{oracle.name_of(b)}"))
                else:
                    got.append((oracle.name_of(a), oracle.name_of(b)))
            other = [k for k in it.emit.appended if k != outvar]
            if other:
                raise Undecided(f"appends to {other}")
        except Undecided as e:
            ctx.undecided("R-C16-1", f, lp, f"ordering {ordering_name(r)}: {e}", construct=ordering_name(r))
            return
        exp = expected_pieces(r)
        ctx.check(sorted(got) == exp, "R-C16-1", f, None,
                  f"ordering {ordering_name(r)}: pieces kept {sorted(got)} = [S,E] minus (L,H) = {exp}",
                  bad_detail=f"ordering {ordering_name(r)} (S,E = segment; L,H = pivot -/+ dist): pieces kept {sorted(got)}, "
                             f"but [S,E] minus the zone (L,H) is {exp}: a range near an earlier pivot becomes available again "
                             f"or a free range is lost",
                  construct=f"ordering {ordering_name(r)}", key=f"ordering {ordering_name(r)}")
    ctx.notes.setdefault("abstract_cases", {})["_remove_pivot_segment"] = {"cases": n_cases, "exhaustive": True}


def rule_sample(ctx: Ctx):
    M = ctx.model
    f = ctx.fn("ShuffleContinuumSampler.sample_from_continuum", "R-C16-2")
    sn = f.self_name
    node = f.node

    def local(name):
        vs = assigned_value(node, name)
        return vs

    # reference continuum, bounds
    refs = [n.targets[0].id for n in walk_no_nested(node) if isinstance(n, ast.Assign) and isinstance(n.targets[0], ast.Name)
            and norm(n.value) == f"{sn}._reference_continuum"]
    ref = refs[0] if refs else f"{sn}._reference_continuum"
    bnds = [n for n in walk_no_nested(node) if isinstance(n, ast.Assign) and norm(n.value) == f"{ref}.bounds" and
            isinstance(n.targets[0], ast.Tuple) and len(n.targets[0].elts) == 2]
    ctx.require(bnds, "R-C16-2", "`bound_inf, bound_sup = <reference>.bounds` not found")
    b_inf, b_sup = [norm(x) for x in bnds[0].targets[0].elts]
    # the per-unit loop
    ref_names = set(refs) | {f"{sn}._reference_continuum"}       # every local that is the reference continuum
    uloops = [n for n in walk_no_nested(node) if isinstance(n, ast.For) and isinstance(n.iter, ast.Call) and isinstance(n.iter.func, ast.Attribute) and
              n.iter.func.attr in ("iter_annotator", "iterunits") and norm(n.iter.func.value) in ref_names]
    ctx.require(len(uloops) == 1, "R-C16-2", "loop over the units of the drawn annotator not found")
    ul = uloops[0]
    uvar = norm(ul.target)
    src_annot = norm(ul.iter.args[0]) if ul.iter.args else None
    aloops = enclosing(node, ul, (ast.For,))
    ctx.require(aloops, "R-C16-3", "per-annotator loop not found")
    al = aloops[-1]
    idx = norm(al.target)

    # the pivot variable = the local bound to self._random_from_segments(...)
    pvn = [norm(n.targets[0] if isinstance(n, ast.Assign) else n.target) for n in walk_no_nested(node) if isinstance(n, (ast.Assign, ast.AnnAssign))
           and isinstance(n.value, ast.Call) and norm(n.value.func) == f"{sn}._random_from_segments"]
    ctx.require(len(set(pvn)) == 1, "R-C16-3", "the local holding the drawn pivot (= self._random_from_segments(...)) not found")
    PV = pvn[0]
    env = {}
    atoms = {"s": Lin.atom("s"), "e": Lin.atom("e"), "pivot": Lin.atom("pivot"),
             "binf": Lin.atom("binf"), "bsup": Lin.atom("bsup")}

    class NoOracle(Oracle):
        pass

    def attr(base, name):
        if isinstance(base, Sym) and base.domain == "unit":
            if name == "segment":
                return Sym("seg", "seg")
            if name == "annotation":
                return Sym("label", "str")
        if isinstance(base, Sym) and base.domain == "seg":
            if name == "start":
                return atoms["s"]
            if name == "end":
                return atoms["e"]
        return NotImplemented
    it = Interp(NoOracle(), {uvar: Sym("unit", "unit"), PV: atoms["pivot"], b_inf: atoms["binf"], b_sup: atoms["bsup"]}, attr=attr)

    # the unit loop body is evaluated once per outcome of the wrap test: local assignments are substituted, the test picks the branch
    import copy as _copy

    class _Subst(ast.NodeTransformer):
        def __init__(self, env_):
            self.env_ = env_

        def visit_Name(self, n):
            if isinstance(n.ctx, ast.Load) and n.id in self.env_:
                return _copy.deepcopy(self.env_[n.id])
            return n

    wrap_ifs = [s for s in ast.walk(ul) if isinstance(s, (ast.If, ast.IfExp))]
    if len(wrap_ifs) != 1:
        ctx.undecided("R-C16-2", f, ul, f"unit loop body contains {len(wrap_ifs)} tests, one wrap test expected (not a verdict)")
        return
    wi = wrap_ifs[0]

    class _Shape(Exception):
        pass

    def run_units(stmts, wrapped: bool, lenv: dict, adds: list, tests: list):
        for st in stmts:
            if isinstance(st, ast.Assign) and len(st.targets) == 1 and isinstance(st.targets[0], ast.Name):
                lenv[st.targets[0].id] = _Subst(lenv).visit(_copy.deepcopy(st.value))
            elif st is wi:
                tests.append(_Subst(lenv).visit(_copy.deepcopy(st.test)))
                run_units(st.body if wrapped else st.orelse, wrapped, lenv, adds, tests)
            elif isinstance(st, ast.Expr) and isinstance(st.value, ast.Call) and isinstance(st.value.func, ast.Attribute) and st.value.func.attr == "add":
                c = _Subst(lenv).visit(_copy.deepcopy(st.value))
                # the wrap test may be a conditional expression inside the call: `add(a, S1 if wrap else S2, label)`
                pick = []

                class _Pick(ast.NodeTransformer):
                    def visit_IfExp(self, n):
                        self.generic_visit(n)
                        pick.append(n.test)
                        return n.body if wrapped else n.orelse
                if any(wi is x for x in ast.walk(st.value)):
                    c = _Pick().visit(c)
                    tests.extend(pick[:1])
                adds.append((c, st.value))
            else:
                raise _Shape(norm(st)[:80])
    try:
        outcomes = {}
        tests_seen: list = []
        for wrapped in (True, False):
            adds: list = []
            run_units(ul.body, wrapped, {}, adds, tests_seen)
            outcomes[wrapped] = adds
    except _Shape as e:
        ctx.undecided("R-C16-2", f, ul, f"unit loop body contains `{e}`: shape not recognised (not a verdict)")
        return
    try:
        if not tests_seen:
            raise Undecided("the wrap test is not on the path of the unit loop body")
        t = tests_seen[0]
        if not (isinstance(t, ast.Compare) and len(t.ops) == 1):
            raise Undecided("wrap condition is not a single comparison")
        l, r = it.ev(t.left), it.ev(t.comparators[0])
        d = l - r if isinstance(t.ops[0], (ast.Gt, ast.GtE)) else r - l
        want = atoms["s"] + atoms["pivot"] - atoms["bsup"]
        strict = isinstance(t.ops[0], (ast.Gt, ast.Lt))
        ctx.check(d == want and strict, "R-C16-2", f, wi.test, "wrap exactly when start + pivot > upper bound",
                  bad_detail=f"wrap condition is `{norm(t)}`; documented rule: start + pivot > bound_sup", key="wrap-condition")
        length = atoms["bsup"] - atoms["binf"]
        for wrapped, shift, nm in ((True, atoms["pivot"] - length, "wrapped"), (False, atoms["pivot"], "plain")):
            adds = outcomes[wrapped]
            if len(adds) != 1:
                ctx.bad("R-C16-2", f, wi, f"{nm} branch must add exactly one unit per source unit (found {len(adds)})", key=f"{nm}-add")
                continue
            a, a_orig = adds[0]
            args = list(a.args) + [k.value for k in a.keywords]
            seg = args[1] if len(args) >= 2 else None
            if not (isinstance(seg, ast.Call) and dotted(seg.func) == "Segment" and len(seg.args) == 2):
                ctx.undecided("R-C16-2", f, a_orig, "second argument of add is not Segment(a, b)")
                continue
            x, y = it.ev(seg.args[0]), it.ev(seg.args[1])
            ok = (x - atoms["s"]) == shift and (y - atoms["e"]) == shift
            ctx.check(ok, "R-C16-2", f, a_orig, f"{nm}: start and end both shifted by {shift}: same duration, single pivot",
                      bad_detail=f"{nm} branch: start shifted by {x - atoms['s']}, end by {y - atoms['e']}; expected both {shift}",
                      key=f"{nm}-shift")
            lab = kwarg(a, "annotation") or (args[2] if len(args) >= 3 else None)
            ctx.check(lab is not None and norm(lab) == f"{uvar}.annotation", "R-C16-2", f, a_orig, f"{nm}: label copied from the source unit",
                      bad_detail=f"{nm} branch does not copy the unit's label", key=f"{nm}-label")
            new_annot = norm(args[0])
            tgt = norm(a.func.value)
            env[nm] = (tgt, new_annot)
    except Undecided as e:
        ctx.undecided("R-C16-2", f, wi, str(e))
        return

    # ---------------- R-C16-3 structure
    newc = env.get("plain", (None, None))[0]
    new_annot = env.get("plain", (None, None))[1]
    ctx.check(env.get("plain") == env.get("wrapped") and newc is not None, "R-C16-3", f, wi,
              "both branches add to the same new continuum under the same new annotator", key="same-target")
    v = local(newc) if newc else []
    ctx.check(len(v) == 1 and norm(v[0]) == f"{ref}.copy_flush()", "R-C16-3", f, v[0] if v else None,
              "sample is built on copy_flush() of the reference (bounds kept, no units)", key="copy-flush")
    # ground-truth annotators drive the count and the source
    gts = [n.targets[0].id for n in walk_no_nested(node) if isinstance(n, ast.Assign) and isinstance(n.targets[0], ast.Name)
           and norm(n.value) == f"{sn}._ground_truth_annotators"]
    gt = gts[0] if gts else f"{sn}._ground_truth_annotators"
    ctx.check(norm(al.iter) in (f"range(len({gt}))",), "R-C16-3", f, al,
              "one sampled annotator per ground-truth annotator", bad_detail=f"per-annotator loop iterates `{norm(al.iter)}`", key="count")
    srcs = local(src_annot) if src_annot else []
    ctx.check(len(srcs) == 1 and norm(srcs[0]) in (f"np.random.choice({gt})", f"numpy.random.choice({gt})"), "R-C16-3", f,
              srcs[0] if srcs else None, "source annotator drawn from the ground-truth annotators",
              bad_detail="source annotator is not drawn from the ground-truth set", key="source")
    na = local(new_annot) if new_annot else []
    ctx.check(len(na) == 1 and isinstance(na[0], ast.JoinedStr) and idx in {n.id for n in ast.walk(na[0]) if isinstance(n, ast.Name)},
              "R-C16-3", f, na[0] if na else None, "sampled annotators get distinct names (index in the name)", key="names")
    addann = [n for n in ast.walk(al) if isinstance(n, ast.Call) and norm(n.func) == f"{newc}.add_annotator" and norm(n.args[0]) == new_annot]
    cfg = CFG(f.node)
    ctx.check(bool(addann) and cfg.every_iteration_passes(al, {cfg.node_containing(addann[0])}) if addann else False, "R-C16-3", f,
              addann[0] if addann else None, "every sampled annotator exists even if the source has no unit", key="add-annotator")
    # retry while empty
    wl = [n for n in walk_no_nested(node) if isinstance(n, ast.While) and norm(n.test) == f"not {newc}"]
    ctx.check(len(wl) == 1 and any(al is x for x in ast.walk(wl[0])), "R-C16-3", f, wl[0] if wl else None,
              "sampling is retried while the sample is empty", key="retry")
    # pivot separation plumbing
    dists = [n for n in walk_no_nested(node) if isinstance(n, ast.Assign) and norm(n.value) in (f"{ref}.avg_length_unit / 2", f"0.5 * {ref}.avg_length_unit", f"{ref}.avg_length_unit * 0.5")]
    dist = norm(dists[0].targets[0]) if dists else None
    ctx.check(dist is not None, "R-C16-3", f, dists[0] if dists else None, "separation distance = half the average unit length",
              bad_detail="minimal distance between pivots is not avg_length_unit / 2", construct="min_dist_between_pivots", key="dist")
    avail = None
    rm = [n for n in ast.walk(al) if isinstance(n, ast.Assign) and isinstance(n.value, ast.Call) and
          norm(n.value.func).split(".")[-1] == "_remove_pivot_segment"]
    if rm:
        c = rm[0].value
        avail = norm(rm[0].targets[0])
        ca = pargs(ctx.model, c)
        ok = len(ca) == 3 and norm(ca[0]) == PV and norm(ca[1]) == avail and norm(ca[2]) == dist
        ctx.check(ok, "R-C16-3", f, rm[0], "the zone around each drawn pivot is removed from the segments available to later pivots",
                  bad_detail="_remove_pivot_segment is not called with (pivot, available segments, min distance) / result not kept", key="remove")
    else:
        ctx.bad("R-C16-3", f, al, "the zone around a drawn pivot is never removed from the available segments", key="remove")
    pv = [n for n in ast.walk(al) if isinstance(n, (ast.Assign, ast.AnnAssign)) and norm(n.targets[0] if isinstance(n, ast.Assign) else n.target) == PV]
    drawn = [n for n in pv if isinstance(n.value, ast.Call) and norm(n.value.func) == f"{sn}._random_from_segments"]
    ctx.check(bool(drawn) and avail is not None and norm(drawn[0].value.args[0]) == avail, "R-C16-3", f, drawn[0] if drawn else None,
              "pivot drawn from the segments still available", bad_detail="pivot is not drawn from the remaining segments", key="pivot-source")
    if avail:
        init = [n for n in ast.walk(wl[0] if wl else node) if isinstance(n, ast.Assign) and norm(n.targets[0]) == avail and
                norm(n.value) == f"[Segment({b_inf}, {b_sup})]"]
        inside_retry = bool(init) and bool(wl) and not any(init[0] is x for x in ast.walk(al))
        ctx.check(inside_retry, "R-C16-3", f, init[0] if init else None,
                  "each attempt starts with the whole continuum [bound_inf, bound_sup] available",
                  bad_detail="available segments are not reset to the whole continuum at the start of each attempt", key="avail-init")
    fb = [n for n in pv if n not in drawn]
    if avail and drawn:
        def nonempty(t: ast.AST):
            # True: the test holds iff segments remain; False: iff none remain; None: unrelated
            if isinstance(t, ast.UnaryOp) and isinstance(t.op, ast.Not):
                r = nonempty(t.operand)
                return None if r is None else not r
            if norm(t) == avail:
                return True
            if isinstance(t, ast.Compare) and len(t.ops) == 1:
                l, r, op = norm(t.left), norm(t.comparators[0]), type(t.ops[0])
                if l == f"len({avail})" and r == "0":
                    return {ast.NotEq: True, ast.Gt: True, ast.Eq: False, ast.LtE: False}.get(op)
                if l == f"len({avail})" and r == "1":
                    return {ast.GtE: True, ast.Lt: False}.get(op)
                if l == "0" and r == f"len({avail})":
                    return {ast.NotEq: True, ast.Lt: True, ast.Eq: False, ast.GtE: False}.get(op)
                if l == avail and r == "[]":
                    return {ast.NotEq: True, ast.Eq: False}.get(op)
            return None

        def room(st):
            ks = [(nonempty(t) == pol) for t, pol in conditions_at(f.node, st) if nonempty(t) is not None]
            return None if not ks else all(ks)
        r_draw = room(drawn[0])
        if r_draw is not None or fb:
            ctx.check(r_draw is not False, "R-C16-3", f, drawn[0], "the separated draw happens while available segments remain",
                      bad_detail="the pivot is drawn from the available segments exactly when none remain (an empty list is handed to _random_from_segments) - "
                                 "and while room remains the unconstrained fallback is used: pivots are not kept apart", key="draw-guard")
        for n in fb:
            rf = room(n)
            if rf is None:
                ctx.undecided("R-C16-3", f, n, "the fallback pivot is not guarded by a recognised test on the available segments (not a verdict)", key="fallback-guard")
            else:
                ctx.check(rf is False, "R-C16-3", f, n, "the unconstrained fallback pivot is used only when no available segment remains",
                          bad_detail="the unconstrained fallback pivot is used while available (separated) segments remain: pivots are not kept apart", key="fallback-guard")
    for n in fb:
        ctx.check(norm(n.value) in (f"np.random.uniform({b_inf}, {b_sup})",), "R-C16-3", f, n,
                  "fallback pivot (no room left) is drawn within the bounds", key="fallback")

    # _random_from_segments
    g = ctx.fn("ShuffleContinuumSampler._random_from_segments", "R-C16-3")
    gs = g.self_name
    rets = [n for n in walk_no_nested(g.node) if isinstance(n, ast.Return)]
    int_ok = float_ok = False
    for i in [n for n in walk_no_nested(g.node) if isinstance(n, ast.If)]:
        if norm(i.test) == f"{gs}._pivot_type == 'int_pivot'":
            rb = [s for s in i.body if isinstance(s, ast.Return)]
            ro = [s for s in else_part(g.node, i) if isinstance(s, ast.Return)]
            chosen = [norm(x.targets[0]) for x in walk_no_nested(g.node) if isinstance(x, ast.Assign) and isinstance(x.value, ast.Call)
                      and norm(x.value.func) in ("np.random.choice", "numpy.random.choice")]
            sv_ = chosen[0] if chosen else "?"
            rbv = expand_locals(g.node, rb[0].value, skip=(sv_,)) if rb else None
            rov = expand_locals(g.node, ro[0].value, skip=(sv_,)) if ro else None
            int_ok = bool(rb) and isinstance(rbv, ast.Call) and dotted(rbv.func) == "int" and \
                f"random.uniform({sv_}.start, {sv_}.end)" in norm(rbv)
            float_ok = bool(ro) and norm(rov) in (f"np.random.uniform({sv_}.start, {sv_}.end)",)
    ctx.check(int_ok, "R-C16-3", g, None, "integer-pivot mode returns int(uniform draw inside the chosen segment)",
              bad_detail="integer-pivot mode does not return a whole number", construct="int_pivot branch", key="int-mode")
    ctx.check(float_ok, "R-C16-3", g, None, "float-pivot mode returns the uniform draw inside the chosen segment",
              construct="float_pivot branch", key="float-mode")
    ch = [n for n in walk_no_nested(g.node) if isinstance(n, ast.Call) and norm(n.func) in ("np.random.choice", "numpy.random.choice")]
    w_ok = False
    if ch and kwarg(ch[0], "p") is not None:
        wname = norm(kwarg(ch[0], "p"))
        wdef = assigned_value(g.node, wname)
        w_ok = any(isinstance(x, ast.Call) and any(isinstance(c_, (ast.GeneratorExp, ast.ListComp)) and
                   canon(c_.elt if False else c_) in {canon("(s.end - s.start for s in segs)".replace("segs", norm(c_.generators[0].iter))),
                                                        canon("[s.end - s.start for s in segs]".replace("segs", norm(c_.generators[0].iter))),
                                                        canon("(s.duration for s in segs)".replace("segs", norm(c_.generators[0].iter)))}
                   for c_ in ast.walk(x)) for x in wdef) and \
            any(isinstance(n, ast.AugAssign) and norm(n.target) == wname and isinstance(n.op, ast.Div) and norm(n.value) in (f"np.sum({wname})", f"{wname}.sum()", f"sum({wname})")
                for n in walk_no_nested(g.node))
    ctx.check(w_ok, "R-C16-3", g, ch[0] if ch else None, "segment chosen with probability proportional to its length", key="weights")


def run(ctx: Ctx):
    ctx.clauses += [
        "R-C16-1 interval subtraction evaluated abstractly over all orderings of {segment start, end, pivot-dist, pivot+dist}: the kept pieces equal [start,end] minus the pivot zone",
        "R-C16-2 wrap rule as linear forms: wrap iff start + pivot > bound_sup; start and end shifted by the same amount (pivot, or pivot - (bound_sup - bound_inf)); label copied",
        "R-C16-3 structure: copy_flush base, one distinct new annotator per ground-truth annotator, source drawn from the ground-truth set, every unit copied, "
        "distance = avg_length_unit/2 passed to the subtraction, pivot drawn from the remaining segments (length-weighted), int mode returns int(), retry while empty",
    ]
    ctx.not_decided += ["uniformity of the draws", "that int() truncation keeps the pivot inside the drawn segment (suspected further defect, not claimed)",
                        "pivot separation when the continuum is too short (fallback draw) - excluded by the property"]
    ctx.assumptions += ["dist > 0 and start < end (side conditions of the case split)", "numpy.random.choice / uniform semantics"]
    rule_subtraction(ctx)
    check_sampler_init(ctx, "R-C16-3")       # the reference whose bounds / average unit length / units the sample is made from is the one given
    rule_sample(ctx)
