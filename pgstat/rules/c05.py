"""C05 - gamma is 1 - observed/expected over the requested chance samples (DESIGN 4/C05)."""
from __future__ import annotations

import ast
from typing import Dict, List, Optional

from .. import algebra as A
from ..algebra import Extractor, Rat, Unsupported
from ..cfg import CFG
from ..core import Ctx
from ..model import body_stmts, canon, dotted, kwarg, norm, walk_no_nested
from .common import assigned_value, check_sampler_init, cmp_other, enclosing, is_cmp, pnorm, prog, resolve_local, source_order, stores_to

CG = "Continuum.compute_gamma"
JOBS = {"_compute_best_alignment_job": "get_best_alignment", "_compute_soft_alignment_job": "get_best_soft_alignment",
        "_compute_fast_alignment_job": "get_fast_alignment"}


def _submits(f) -> List[ast.Call]:
    return [c for c in walk_no_nested(f.node) if isinstance(c, ast.Call) and isinstance(c.func, ast.Attribute) and c.func.attr == "submit"]


_FN = {}


def _sub_args(c: ast.Call) -> List[ast.AST]:
    out = []
    for a in c.args:
        if isinstance(a, ast.Starred) and isinstance(a.value, (ast.Tuple, ast.List)):
            out += list(a.value.elts)
        elif isinstance(a, ast.Starred) and isinstance(a.value, ast.Name) and _FN.get("node") is not None:
            d = assigned_value(_FN["node"], a.value.id)
            if len(d) == 1 and isinstance(d[0], (ast.Tuple, ast.List)):
                out += list(d[0].elts)          # *args_tuple defined elsewhere: its elements are evaluated THERE
            else:
                out.append(a)
        else:
            out.append(a)
    return out


def run(ctx: Ctx):
    ctx.clauses += [
        "R-C05-1 mode -> job table (default best, soft -> soft, fast -> fast with fallback to exact; soft and fast rejected before any job); the same job value is used for the observed alignment and for every sample",
        "R-C05-2 sampling protocol: sampler.init_sampling(self, ground_truth_annotators) dominates every draw; each sample submit evaluates sampler.sample_from_continuum afresh inside the per-sample iteration",
        "R-C05-3 accounting: n_samples first-batch jobs; second batch only under a precision level and required > n_samples, of size required - n_samples; every future of both batches lands in the list handed to GammaResults",
        "R-C05-4 N_required = ceil((std/mean * 1.96 / precision)^2) over exactly the first-batch chance disorders; named levels through PRECISION_LEVEL; 0 < precision < 1 asserted before use",
        "R-C05-5 GammaResults: observed = best_alignment.disorder, expected = mean over every chance alignment's disorder, gamma = 1 - observed/expected guarded by observed == 0 -> 1, n_samples = len(chance_alignments)",
    ]
    ctx.not_decided += ["validity of each sampled continuum (C15/C16)", "gamma <= 1 and gamma = 1 on identical annotations (need non-negativity / equality of run-time disorders)",
                        "correctness of the alignments computed by the jobs (C01/C02/C10/C11)"]
    ctx.assumptions += ["ThreadPoolExecutor runs every submitted job to completion; .result() returns the job's return value"]
    M = ctx.model
    from .c06 import pool_kind_obligation
    pool_kind_obligation(ctx, "R-C05-3", ["Continuum.compute_gamma"])
    # "each the same kind of alignment of a freshly sampled continuum whose annotators come from the ground-truth annotators": the structural
    # rules of the two samplers on where a sample's annotators and units come from are part of this property too
    from .c15 import rule_generation as _stat_generation
    from .c16 import rule_sample as _shuffle_sample
    ctx.clauses.append("R-C15-1 / R-C16-2 / R-C16-3 (shared with C15, C16) both samplers build a sample on copy_flush() of the reference, one annotator per ground-truth "
                       "annotator, units taken from annotators drawn among the ground-truth annotators")
    _stat_generation(ctx)
    _shuffle_sample(ctx)
    f = ctx.fn(CG, "R-C05-1")
    sn = f.self_name
    cfg = CFG(f.node)
    _FN["node"] = f.node
    subs = _submits(f)
    ctx.require(len(subs) >= 2, "R-C05-1", f"{len(subs)} submit sites in compute_gamma")
    withs = [s for s in f.node.body if isinstance(s, ast.With)]
    ctx.require(len(withs) == 1, "R-C05-1", "executor with-block not found")
    W = withs[0]
    wnode = cfg.node_of(W)

    # ---------------- R-C05-1
    jobvars = {norm(_sub_args(c)[0]) for c in subs}
    ctx.check(len(jobvars) == 1, "R-C05-1", f, subs[0], f"every submit (observed and samples) uses the same job value `{sorted(jobvars)}`: same kind of alignment",
              bad_detail=f"submits use different jobs {sorted(jobvars)}: observed and chance alignments are not the same kind", key="same-job")
    jv = next(iter(jobvars))
    # which job each mode selects: the statements before the pool are evaluated once per (soft, fast), whatever their spelling
    # (default + overrides, if/elif chain, dispatch table indexed by the two flags)
    class _Unknown(Exception):
        pass

    def flag_value(e, mode):
        if isinstance(e, ast.Name) and e.id in mode:
            return mode[e.id]
        if isinstance(e, ast.Constant) and isinstance(e.value, bool):
            return e.value
        if isinstance(e, ast.Call) and dotted(e.func) == "bool" and len(e.args) == 1:
            return flag_value(e.args[0], mode)
        if isinstance(e, ast.UnaryOp) and isinstance(e.op, ast.Not):
            return not flag_value(e.operand, mode)
        if isinstance(e, ast.BoolOp):
            vals = [flag_value(v, mode) for v in e.values]
            return all(vals) if isinstance(e.op, ast.And) else any(vals)
        raise _Unknown(norm(e))

    def job_value(e, mode, env):
        if isinstance(e, ast.Name):
            return env.get(e.id, e.id)
        if isinstance(e, ast.IfExp):
            return job_value(e.body if flag_value(e.test, mode) else e.orelse, mode, env)
        if isinstance(e, ast.Subscript):
            table_ = e.value if isinstance(e.value, ast.Dict) else env.get(norm(e.value))
            if isinstance(table_, ast.Dict):
                key = e.slice.elts if isinstance(e.slice, ast.Tuple) else [e.slice]
                kv = tuple(flag_value(x, mode) for x in key)
                for kk, vv in zip(table_.keys, table_.values):
                    kelts = kk.elts if isinstance(kk, ast.Tuple) else [kk]
                    if all(isinstance(x, ast.Constant) for x in kelts) and tuple(x.value for x in kelts) == kv:
                        return job_value(vv, mode, env)
                return "KeyError"
        raise _Unknown(norm(e))

    def run_mode(stmts, mode, env) -> Optional[str]:
        for st in stmts:
            if st is W:
                return "pool"
            if isinstance(st, ast.Raise):
                return "raise"
            if isinstance(st, ast.If):
                names = {x.id for x in ast.walk(st.test) if isinstance(x, ast.Name)}
                if names and names <= set(mode):
                    r = run_mode(st.body if flag_value(st.test, mode) else st.orelse, mode, env)
                    if r is not None:
                        return r
                elif any(isinstance(x, ast.Assign) and norm(x.targets[0]) == jv for x in ast.walk(st)) or (names & set(mode) and any(isinstance(x, ast.Raise) for x in ast.walk(st))):
                    raise _Unknown(norm(st.test))
            elif isinstance(st, ast.Assign) and len(st.targets) == 1 and isinstance(st.targets[0], ast.Name):
                if st.targets[0].id == jv:
                    env[jv] = job_value(st.value, mode, env)
                elif isinstance(st.value, ast.Dict):
                    env[st.targets[0].id] = st.value
        return None

    want_modes = {(False, False): "_compute_best_alignment_job", (True, False): "_compute_soft_alignment_job", (False, True): "_compute_fast_alignment_job", (True, True): "raise"}
    got_modes = {}
    try:
        for (so, fa) in want_modes:
            env_: dict = {}
            r = run_mode(f.node.body, {"soft": so, "fast": fa}, env_)
            got_modes[(so, fa)] = "raise" if r == "raise" else env_.get(jv)
        ctx.check(got_modes == want_modes, "R-C05-1", f, subs[0], f"(soft, fast) -> job: {got_modes}",
                  bad_detail=f"(soft, fast) -> job is {got_modes}, expected {want_modes} (soft and fast together must be rejected before any job is submitted)",
                  key="job-table")
    except _Unknown as e:
        ctx.undecided("R-C05-1", f, None, f"the job selection depends on `{e}`: shape not recognised (not a verdict)", key="job-table")
    for jn, meth in JOBS.items():
        j = ctx.fn(jn, "R-C05-1")
        dp, cp = j.params[0], j.params[1]
        rets = [r for r in walk_no_nested(j.node) if isinstance(r, ast.Return)]
        if jn != "_compute_fast_alignment_job":
            ok = len(rets) == 1 and pnorm(M, rets[0].value) == f"{cp}.{meth}({dp})"
            ctx.check(ok, "R-C05-1", j, rets[0] if rets else None, f"{jn} computes {meth}(dissimilarity) of the continuum it is given", key=f"job:{jn}")
        else:
            ifs = [i for i in walk_no_nested(j.node) if isinstance(i, ast.If)]
            ok = len(ifs) == 1 and norm(ifs[0].test) in (f"{cp}.best_window_size == np.inf", f"np.isinf({cp}.best_window_size)") and \
                len(ifs[0].body) == 1 and isinstance(ifs[0].body[0], ast.Return) and pnorm(M, ifs[0].body[0].value) == f"{cp}.get_best_alignment({dp})" and \
                any(pnorm(M, r.value) == f"{cp}.get_fast_alignment({dp}, {cp}.best_window_size)" for r in rets)
            ctx.check(ok, "R-C05-1", j, ifs[0] if ifs else None, "fast job: exact algorithm iff the window size is the 'disadvantageous' sentinel, else windowed with that size",
                      key=f"job:{jn}")
    mb = [c for c in walk_no_nested(f.node) if isinstance(c, ast.Call) and norm(c.func) == f"{sn}.measure_best_window_size"]
    ok = len(mb) == 1 and [norm(enclosing(f.node, mb[0], (ast.If,))[-1].test)] == ["fast"] and norm(mb[0].args[0]) == f.params[1] and \
        cfg.node_containing(mb[0]) is not None and top_before(f, mb[0], W)
    ctx.check(ok, "R-C05-1", f, mb[0] if mb else None, "fast mode measures the window size with the same dissimilarity before the pool starts", key="measure")

    # ---------------- R-C05-2
    samp = f.params[5] if len(f.params) > 5 else "sampler"
    inits = [c for c in walk_no_nested(f.node) if isinstance(c, ast.Call) and norm(c.func) == f"{samp}.init_sampling"]
    ok = len(inits) == 1 and [norm(a) for a in inits[0].args] == [sn, "ground_truth_annotators"] and not enclosing(f.node, inits[0], (ast.If, ast.For, ast.While))
    inode = cfg.node_containing(inits[0]) if inits else None
    ok = ok and inode is not None and all(cfg.dominates(inode, cfg.node_containing(c)) for c in subs)
    ctx.check(ok, "R-C05-2", f, inits[0] if inits else None, "sampler.init_sampling(self, ground_truth_annotators) runs unconditionally before every job",
              bad_detail="the sampler is not (unconditionally) initialised with this continuum and the ground-truth annotators before sampling", key="init")
    check_sampler_init(ctx, "R-C05-2")
    dsam = [i for i in f.node.body if isinstance(i, ast.If) and norm(i.test) == f"{samp} is None"]
    okd = len(dsam) == 1 and any(isinstance(s, ast.Assign) and norm(s.targets[0]) == samp and norm(s.value) == "StatisticalContinuumSampler()" for s in dsam[0].body)
    ctx.check(okd, "R-C05-2", f, dsam[0] if dsam else None, "default sampler: StatisticalContinuumSampler()", key="default-sampler")
    ddis = [i for i in f.node.body if isinstance(i, ast.If) and norm(i.test) == f"{f.params[1]} is None"]
    ctx.check(len(ddis) == 1 and any(isinstance(s, ast.Assign) and norm(s.value) == "CombinedCategoricalDissimilarity()" for s in ddis[0].body), "R-C05-2", f,
              ddis[0] if ddis else None, "default dissimilarity: CombinedCategoricalDissimilarity()", key="default-dissimilarity")
    sample_subs, observed_subs = [], []
    for c in subs:
        a = _sub_args(c)
        if len(a) == 3 and norm(a[1]) == f.params[1] and norm(a[2]) == f"{samp}.sample_from_continuum":
            sample_subs.append(c)
        elif len(a) == 3 and norm(a[1]) == f.params[1] and norm(a[2]) == sn:
            observed_subs.append(c)
        else:
            ctx.bad("R-C05-2", f, c, f"submit arguments {[norm(x) for x in a]} are neither (job, dissimilarity, self) nor (job, dissimilarity, sampler.sample_from_continuum): "
                    f"a stale or shared sample is aligned", key="submit-args")
    ctx.check(len(observed_subs) == 1, "R-C05-2", f, observed_subs[0] if observed_subs else None, "exactly one job aligns the input continuum itself with the given dissimilarity",
              key="observed-submit")
    pools = []
    for c in sample_subs:
        comp = enclosing(f.node, c, (ast.ListComp, ast.For))
        inner = comp[-1] if comp else None
        sample_expr = _sub_args(c)[2]
        fresh = inner is not None and (isinstance(inner, ast.ListComp) and inner.elt is c or
                                       isinstance(inner, ast.For) and any(c is x for b in inner.body for x in ast.walk(b)))
        # the expression that draws the sample must itself be evaluated inside the iteration
        fresh = fresh and any(sample_expr is x for x in ast.walk(inner.elt if isinstance(inner, ast.ListComp) else inner))
        ctx.check(fresh, "R-C05-2", f, c, "the sample is drawn inside the per-sample iteration: one fresh continuum per job",
                  bad_detail="sampler.sample_from_continuum is a property that draws on each access, but here it is evaluated once outside the per-sample iteration: "
                             "every job of this batch aligns the same continuum", key=f"fresh-sample")
        if inner is not None:
            it = inner.generators[0].iter if isinstance(inner, ast.ListComp) else inner.iter
            pools.append((c, inner, it))
    ctx.require(len(pools) >= 1, "R-C05-2", "no sample pool found")

    # ---------------- R-C05-3 / R-C05-4
    first = [p for p in pools if norm(p[2]) == "range(n_samples)"]
    ctx.check(len(first) == 1 and not enclosing(f.node, first[0][1], (ast.If,)), "R-C05-3", f, first[0][1] if first else None,
              "first batch: unconditionally one job per requested sample (range(n_samples))",
              bad_detail="the first batch is not `n_samples` unconditional jobs", key="first-batch")
    gr = [c for c in walk_no_nested(f.node) if isinstance(c, ast.Call) and dotted(c.func) == "GammaResults"]
    ctx.require(len(gr) == 1, "R-C05-5", "GammaResults(...) construction not found")
    G = gr[0]
    chance = norm(kwarg(G, "chance_alignments")) if kwarg(G, "chance_alignments") is not None else None
    ctx.require(chance, "R-C05-3", "chance_alignments= argument not found")
    cinit = [v for v in assigned_value(f.node, chance)]
    ctx.check(len(cinit) == 1 and isinstance(cinit[0], ast.List) and not cinit[0].elts and len(stores_to(f.node, chance)) == 1, "R-C05-3", f, cinit[0] if cinit else None,
              "the chance list starts empty and is never rebound", key="chance-init")

    def collected(pool) -> Optional[ast.For]:
        """loop that appends .result() of every future of `pool` to the chance list"""
        c, inner, it = pool
        if isinstance(inner, ast.ListComp):
            asg = enclosing(f.node, inner, (ast.Assign,))
            pv = norm(asg[-1].targets[0]) if asg else None
            anode = asg[-1] if asg else None
        else:
            # for _ in range(n): pool.append(p.submit(...))   with   pool = []  just before
            apps_ = [x for x in enclosing(f.node, c, (ast.Call,)) if isinstance(x.func, ast.Attribute) and x.func.attr == "append" and x.args and x.args[0] is c]
            pv = norm(apps_[-1].func.value) if apps_ else None
            inits = [s_ for s_ in walk_no_nested(f.node) if isinstance(s_, ast.Assign) and pv and norm(s_.targets[0]) == pv and isinstance(s_.value, ast.List)
                     and not s_.value.elts and _same_block(f, s_, inner) and _pos(f, s_) < _pos(f, inner)]
            anode = inits[-1] if inits else None
        if pv is None or anode is None:
            return None
        for L in walk_no_nested(f.node):
            if isinstance(L, ast.For) and (norm(L.iter) == pv or (isinstance(L.iter, ast.Call) and dotted(L.iter.func) == "enumerate" and L.iter.args and
                                                                  norm(L.iter.args[0]) == pv)):
                # must be the binding in force: the closest preceding assignment of pv is `anode`
                names = [norm(x) for x in ast.walk(L.target) if isinstance(x, ast.Name)]
                fut = names[-1]
                apps = [s for s in L.body if isinstance(s, ast.Expr) and isinstance(s.value, ast.Call) and norm(s.value.func) == f"{chance}.append"
                        and norm(s.value.args[0]) == f"{fut}.result()"]
                same_block = _same_block(f, anode, L)
                if apps and same_block and _pos(f, anode) < _pos(f, L) and not any(
                        _same_block(f, o, L) and _pos(f, anode) < _pos(f, o) < _pos(f, L) for o in stores_to(f.node, pv) if o is not anode):
                    return L
        return None
    L1 = collected(first[0]) if first else None
    ctx.check(L1 is not None, "R-C05-3", f, L1, "every first-batch future's result is appended to the chance list",
              bad_detail="first-batch results are not all collected into the chance list", key="collect-first")
    second = [p for p in pools if p not in first]
    prec = f.params[3]
    if second:
        P2 = second[0]
        if_nodes = enclosing(f.node, P2[1], (ast.If,))
        ifs = [norm(i.test) for i in if_nodes]
        req = None
        for i_ in if_nodes:
            x_ = cmp_other(i_.test, "n_samples", "<")          # n_samples < X   (i.e. X > n_samples)
            if x_ is not None:
                req = x_
        size = P2[2].args[0] if isinstance(P2[2], ast.Call) and dotted(P2[2].func) == "range" and len(P2[2].args) == 1 else None
        size = resolve_local(f.node, size) if size is not None else None
        ok2 = f"{prec} is not None" in ifs and req is not None and size is not None and norm(size) == f"{req} - n_samples" and len(ifs) == 2
        ctx.check(ok2, "R-C05-3", f, P2[1], "second batch exists only under a precision level and required > n_samples, with required - n_samples jobs",
                  bad_detail=f"second batch guards {ifs} / size `{norm(P2[2])}` deviate from (precision given, required > n_samples, required - n_samples)", key="second-batch")
        L2 = collected(P2)
        ctx.check(L2 is not None, "R-C05-3", f, L2 or P2[1], "every second-batch future's result is appended to the same chance list",
                  bad_detail="results of the additional samples are not collected: N_required is computed but the samples are thrown away", key="collect-second")
        # ---- formula
        rdef = assigned_value(f.node, req) if req else []
        okf = False
        why = "definition not found"
        cdname = None
        if len(rdef) == 1:
            e = rdef[0]
            # strip .astype(...) / int(...)
            while isinstance(e, ast.Call) and ((isinstance(e.func, ast.Attribute) and e.func.attr == "astype") or dotted(e.func) in ("int", "np.int32", "np.int64")):
                e = e.func.value if isinstance(e.func, ast.Attribute) and e.func.attr == "astype" else e.args[0]
            if isinstance(e, ast.Call) and dotted(e.func) in ("np.ceil", "math.ceil") and len(e.args) == 1:
                def call(ex, c):
                    nm = dotted(c.func)
                    if nm in ("np.std", "np.mean", "numpy.std", "numpy.mean") and len(c.args) == 1 and isinstance(c.args[0], ast.Name) and not c.keywords:
                        ex.env.setdefault("__cd", set()).add(c.args[0].id) if False else None
                        cds.add(c.args[0].id)
                        return A.mk_app(nm.split(".")[-1].upper(), [Rat.var("cd")])
                    return None
                cds = set()
                ex = Extractor({prec: Rat.var("p")}, call=call)
                try:
                    inner = e.args[0]

                    def inline(x):
                        while isinstance(x, ast.Name) and x.id not in ex.env:
                            d = assigned_value(f.node, x.id)
                            if len(d) != 1:
                                break
                            x = d[0]
                        return x

                    class Inl(ast.NodeTransformer):
                        def visit_Name(self, n):
                            if n.id in ex.env or n.id in cds:
                                return n
                            d = assigned_value(f.node, n.id)
                            if len(d) == 1 and not isinstance(d[0], (ast.List,)) and n.id not in (chance,):
                                return self.visit(d[0])
                            return n
                    import copy
                    got = ex.ev(Inl().visit(copy.deepcopy(inner)))
                    std, mean = A.mk_app("STD", [Rat.var("cd")]), A.mk_app("MEAN", [Rat.var("cd")])
                    wantf = (std / mean * Rat.const("1.96") / Rat.var("p")).pow(2)
                    okf = got == wantf and len(cds) == 1
                    why = f"found ceil({got})"
                    cdname = next(iter(cds)) if len(cds) == 1 else None
                except Unsupported as ue:
                    why = str(ue)
            else:
                why = "not ceil(...)"
        ctx.check(okf, "R-C05-4", f, rdef[0] if rdef else None, "N_required = ceil((std(cd)/mean(cd) * 1.96 / precision)^2)",
                  bad_detail=f"required number of samples deviates from ceil((CV * 1.96 / precision)^2): {why}", key="formula")
        if cdname:
            apps = [c for c in walk_no_nested(f.node) if isinstance(c, ast.Call) and norm(c.func) == f"{cdname}.append"]
            ok_cd = len(apps) == 1 and L1 is not None and any(apps[0] is x for x in ast.walk(L1)) and \
                norm(apps[0].args[0]) in (f"{chance}[-1].disorder",) and len(stores_to(f.node, cdname)) == 1 and \
                isinstance(assigned_value(f.node, cdname)[0], ast.List) and not assigned_value(f.node, cdname)[0].elts
            if ok_cd:
                a_chance = next(s for s in L1.body if isinstance(s, ast.Expr) and isinstance(s.value, ast.Call) and norm(s.value.func) == f"{chance}.append")
                a_cd = next(s for s in L1.body if isinstance(s, ast.Expr) and s.value is apps[0])
                ok_cd = L1.body.index(a_chance) < L1.body.index(a_cd)
            ctx.check(ok_cd, "R-C05-4", f, apps[0] if apps else None, "the CV is taken over exactly one disorder per first-batch sample (the one just collected)",
                      bad_detail="the list the coefficient of variation is computed on does not hold exactly the first-batch chance disorders", key="cv-domain")
        lv = [i for i in walk_no_nested(f.node) if isinstance(i, ast.If) and norm(i.test) == f"isinstance({prec}, str)"]
        okl = len(lv) == 1 and len(lv[0].body) == 1 and norm(lv[0].body[0]) == f"{prec} = PRECISION_LEVEL[{prec}]"
        ctx.check(okl, "R-C05-4", f, lv[0] if lv else None, "named precision levels are translated through PRECISION_LEVEL", key="named-levels")
        asr = [s for s in walk_no_nested(f.node) if isinstance(s, ast.Assert) and prec in norm(s.test)]
        oka = len(asr) == 1 and norm(asr[0].test) in (f"0 < {prec} < 1.0", f"0 < {prec} < 1", f"0.0 < {prec} < 1.0") and rdef and \
            cfg.dominates(cfg.node_of(asr[0]), cfg.node_containing(rdef[0])) and (not lv or _pos(f, lv[0]) < _pos(f, asr[0]))
        ctx.check(bool(oka), "R-C05-4", f, asr[0] if asr else None, "0 < precision < 1 is asserted (after translating named levels) before the formula uses it", key="assert")
    else:
        ctx.bad("R-C05-3", f, W, "no second batch: a precision level never draws the additional samples N_required asks for", key="second-batch")
    tbl = M.modules["pygamma_agreement.continuum"].globals_.get("PRECISION_LEVEL")
    okt = isinstance(tbl, ast.Dict) and {k.value for k in tbl.keys if isinstance(k, ast.Constant)} == {"high", "medium", "low"} and \
        all(isinstance(v, ast.Constant) and 0 < v.value < 1 for v in tbl.values)
    ctx.check(okt, "R-C05-4", f, tbl, "PRECISION_LEVEL maps high / medium / low to numbers in (0, 1)", construct="PRECISION_LEVEL", key="table")

    # ---------------- R-C05-5
    ba = kwarg(G, "best_alignment")
    bdef = assigned_value(f.node, norm(ba)) if ba is not None else []
    okb = False
    if len(bdef) == 1 and isinstance(bdef[0], ast.Call) and isinstance(bdef[0].func, ast.Attribute) and bdef[0].func.attr == "result" and observed_subs:
        fut = norm(bdef[0].func.value)
        fd = assigned_value(f.node, fut)
        okb = len(fd) == 1 and fd[0] is observed_subs[0]
    ctx.check(okb, "R-C05-5", f, G, "best_alignment is the result of the job that aligned the input continuum",
              bad_detail="GammaResults.best_alignment is not the observed job's result", key="best")
    ctx.check(kwarg(G, "dissimilarity") is not None and norm(kwarg(G, "dissimilarity")) == f.params[1] and
              kwarg(G, "precision_level") is not None and norm(kwarg(G, "precision_level")) == prec, "R-C05-5", f, G,
              "GammaResults keeps the dissimilarity and the precision level used", key="fields")
    specs = {
        "GammaResults.n_samples": {"len(self.chance_alignments)"},
        "GammaResults.observed_disorder": {"self.best_alignment.disorder"},
        "GammaResults.expected_disorder": {"float(np.mean([align.disorder for align in self.chance_alignments]))",
                                           "np.mean([align.disorder for align in self.chance_alignments])"},
    }
    for qn, acc in specs.items():
        g = ctx.fn(qn, "R-C05-5")
        b = body_stmts(g.node)
        got = None
        if len(b) == 1 and isinstance(b[0], ast.Return) and b[0].value is not None:
            import copy as _c
            v = _c.deepcopy(b[0].value)
            for comp in ast.walk(v):
                for fld in ("args",):
                    if isinstance(comp, ast.Call):
                        comp.args = [ast.ListComp(elt=a.elt, generators=a.generators) if isinstance(a, ast.GeneratorExp) else a for a in comp.args]
            got = canon(v)
        acc = {canon(a) for a in acc}
        ctx.check(got in acc, "R-C05-5", g, b[0] if b else None, f"{qn} == {got}", bad_detail=f"{qn} returns `{got}`; definition: {sorted(acc)}", key="accessor")
    g = ctx.fn("GammaResults.gamma", "R-C05-5")
    gcfg = CFG(g.node)
    rets = [r for r in walk_no_nested(g.node) if isinstance(r, ast.Return)]
    form = [r for r in rets if isinstance(r.value, ast.BinOp)]
    okg = False
    why = ""
    if len(form) == 1:
        try:
            obs_names = {s.targets[0].id for s in walk_no_nested(g.node) if isinstance(s, ast.Assign) and isinstance(s.targets[0], ast.Name)
                         and norm(s.value) == f"{g.self_name}.observed_disorder"}
            env = {n: Rat.var("obs") for n in obs_names}
            ex = Extractor(env, attribute=lambda ex_, e: Rat.var({"observed_disorder": "obs", "expected_disorder": "exp"}.get(e.attr, "?" + e.attr))
                           if norm(e.value) == g.self_name else None)
            okg = ex.ev(form[0].value) == Rat.const(1) - Rat.var("obs") / Rat.var("exp")
        except Unsupported as ue:
            why = str(ue)
        guards = [i for i in walk_no_nested(g.node) if isinstance(i, ast.If) and len(i.body) == 1 and isinstance(i.body[0], ast.Return) and
                  isinstance(i.body[0].value, ast.Constant) and i.body[0].value.value in (1, 1.0) and
                  norm(i.test) in {f"{n} == 0" for n in obs_names} | {f"{g.self_name}.observed_disorder == 0"}]
        okg = okg and len(guards) == 1 and gcfg.dominates(gcfg.node_of(guards[0]), gcfg.node_of(form[0]))
    ctx.check(okg, "R-C05-5", g, form[0] if form else None, "gamma = 1 - observed/expected, the observed == 0 -> 1 guard dominating the division",
              bad_detail=f"gamma is not 1 - observed/expected behind the `observed == 0 -> 1` guard {why}", key="gamma")


def top_before(f, node, stmt) -> bool:
    from .common import top_level_index
    i = top_level_index(f.node, node)
    return i is not None and i < f.node.body.index(stmt)


def _pos(f, node) -> int:
    return source_order(f.node).get(id(node), -1)


def _same_block(f, a, b) -> bool:
    """b is in the same statement list as a, or nested deeper below a later sibling of a"""
    for n in ast.walk(f.node):
        for fld in ("body", "orelse", "finalbody"):
            blk = getattr(n, fld, None)
            if isinstance(blk, list) and a in blk:
                return any(b is x for s in blk[blk.index(a):] for x in ast.walk(s))
    return False
