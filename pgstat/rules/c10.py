"""C10 - the fast alignment terminates with a valid, never-better-than-optimal alignment (DESIGN 4/C10)."""
from __future__ import annotations

import ast
from typing import List, Optional

from ..cases import Interp, Lin, Oracle, Undecided
from ..cfg import CFG, EXIT
from ..core import Ctx
from ..flow import AV
from ..model import AnalysisError, body_stmts, dotted, kwarg, norm, walk_no_nested
from .c03 import rule_fast_cache
from .common import assigned_value, bound_args, conditions_at, check_alignment_record, check_unitary_record, enclosing, key_function, pnorm, prog, resolve_local, stores_to

FAST = "Continuum.get_fast_alignment"


def _first_iteration_yields(gen, loop: ast.For) -> Optional[str]:
    """None if the first iteration of `loop` reaches a yield before any break/continue/return; else the reason"""
    idx = None
    if isinstance(loop.iter, ast.Call) and dotted(loop.iter.func) == "enumerate" and isinstance(loop.target, ast.Tuple):
        idx = norm(loop.target.elts[0])

    class O(Oracle):
        pass
    env = {idx: Lin.num(0)} if idx else {}

    def attr(base, name):
        raise Undecided("run-time value")

    it = Interp(O(), env, attr=lambda b, n: NotImplemented)
    for s in loop.body:
        if isinstance(s, ast.Expr) and isinstance(s.value, (ast.Yield, ast.YieldFrom)):
            return None
        if isinstance(s, ast.If):
            try:
                taken = it.truth(it.ev(s.test))
            except Undecided as e:
                return f"the test `{norm(s.test)}` may be true for the very first element ({e})"
            branch = s.body if taken else s.orelse
            for b in branch:
                if isinstance(b, ast.Expr) and isinstance(b.value, (ast.Yield, ast.YieldFrom)):
                    return None
                if isinstance(b, (ast.Break, ast.Continue, ast.Return)):
                    return f"`{norm(s.test)}` leaves the loop before the first yield"
            continue
        if isinstance(s, (ast.Break, ast.Continue, ast.Return)):
            return "loop exits before yielding"
        if isinstance(s, (ast.Assign, ast.AnnAssign, ast.Expr)):
            continue
        return f"statement `{norm(s)[:40]}` before the first yield not understood"
    return "no yield in the loop body"


def rule_progress(ctx: Ctx):
    M, p = ctx.model, prog(ctx)
    f = ctx.fn(FAST, "R-C10-1")
    sn = f.self_name
    cfg = CFG(f.node)
    # working copy
    fl0 = p.flow(f)
    cps = [s for s in walk_no_nested(f.node) if isinstance(s, ast.Assign) and isinstance(s.targets[0], ast.Name) and
           (norm(s.value) == f"{sn}.copy()" or
            (isinstance(s.value, ast.Call) and norm(s.value.func) in (f"{sn}.merge", "deepcopy", "copy.deepcopy") and sn in {x.id for x in ast.walk(s.value) if isinstance(x, ast.Name)}
             and fl0.vals_at(s.value) and all(v.kind == "fresh" for v in fl0.vals_at(s.value))))]
    ctx.require(len(cps) == 1, "R-C10-2", "working copy (`copy = self.copy()` or another freshly allocated copy of self) not found")
    cp = norm(cps[0].targets[0])
    ctx.check(len(stores_to(f.node, cp)) == 1, "R-C10-2", f, cps[0], "the fast alignment consumes a private copy of the continuum (never rebound)", key="copy")
    if norm(cps[0].value) == f"{sn}.copy()":
        # ... and that copy holds every annotator and unit: copy() must carry the whole unit dictionary (an annotator without units has a slot too)
        from .c13 import _carried_fields
        cpf = ctx.fn("Continuum.copy", "R-C10-2")
        try:
            carried = _carried_fields(ctx, cpf)
            ctx.check("_annotations" in carried, "R-C10-2", cpf, carried.get("_annotations"), "copy() carries the complete annotator -> units dictionary",
                      bad_detail="copy() does not carry self._annotations as a whole (units re-added one by one lose the annotators without units): the working "
                                 "copy of the fast alignment has fewer slots than the continuum", key="copy-faithful")
        except AnalysisError as e:
            ctx.undecided("R-C10-2", cpf, None, f"copy(): {e.msg}", key="copy-faithful")
    loops = [w for w in walk_no_nested(f.node) if isinstance(w, ast.While) and norm(w.test) == cp]
    ctx.require(len(loops) == 1, "R-C10-1", "`while copy:` loop not found")
    W = loops[0]
    # window from the copy, best alignment of the window
    win = [s for s in W.body if isinstance(s, ast.Assign) and isinstance(s.value, ast.Call) and norm(s.value.func) == f"{cp}.get_first_window"]
    gfw = ctx.fn("Continuum.get_first_window", "R-C10-2")
    ba_ = bound_args(win[0].value, gfw) if len(win) == 1 else None
    ok_w = len(win) == 1 and isinstance(win[0].targets[0], ast.Tuple) and len(win[0].targets[0].elts) == 2 and ba_ is not None and \
        [norm(ba_[k]) if k in ba_ else None for k in gfw.params[1:]] == [f.params[1], f.params[2]]
    ctx.check(ok_w, "R-C10-2", f, win[0] if win else W, "each window is taken from the remaining units of the working copy, with the requested window size",
              bad_detail="the window is not copy.get_first_window(dissimilarity, window_size)", key="window")
    if not ok_w:
        return
    wv, xl = norm(win[0].targets[0].elts[0]), norm(win[0].targets[0].elts[1])
    ba = [s for s in W.body if isinstance(s, ast.Assign) and pnorm(M, s.value) == f"{wv}.get_best_alignment({f.params[1]})"]
    ctx.check(len(ba) == 1, "R-C10-2", f, ba[0] if ba else W, "the window is aligned exactly (get_best_alignment) with the same dissimilarity", key="window-best")
    if not ba:
        return
    bav = norm(ba[0].targets[0])
    # the working copy must shrink by removing the kept units THEMSELVES (Continuum.remove); removal by position needs an ordering
    # invariant that nothing establishes (kept alignments are chosen by right end, sets are sorted by start)
    positional = []
    direct = []
    for n in ast.walk(W):
        if isinstance(n, ast.Delete):
            for t in n.targets:
                if f"{cp}._annotations" in norm(t) or f"{cp}._categories" in norm(t):
                    positional.append(n)
        elif isinstance(n, ast.Call) and isinstance(n.func, ast.Attribute) and f"{cp}._annotations" in norm(n.func.value):
            if n.func.attr in ("pop", "clear", "popitem"):
                positional.append(n)
            elif n.func.attr in ("remove", "discard", "add", "update", "difference_update"):
                direct.append(n)
        elif isinstance(n, (ast.Assign, ast.AugAssign)):
            for t in (n.targets if isinstance(n, ast.Assign) else [n.target]):
                if f"{cp}._annotations" in norm(t) or f"{cp}._categories" in norm(t):
                    direct.append(n)
    for n in positional:
        ctx.bad("R-C10-2", f, n, f"`{norm(n)[:80]}` drops units from the working copy by POSITION, not the units of the kept unitary alignments themselves: "
                f"unit sets are sorted by start while unitary alignments are kept by their right end, so with nested / long overlapping units a kept unit "
                f"stays in the copy (aligned again later) and an unaligned one is lost: the result is not a partition", key="positional-removal")
    for n in direct:
        ctx.undecided("R-C10-2", f, n, "the working copy's representation is written directly instead of through Continuum.remove: not recognised (not a verdict)",
                      key="direct-write")
    if positional:
        return
    # the loop over the chosen unitary alignments
    floops = [L for L in W.body if isinstance(L, ast.For)]
    ctx.require(len(floops) == 1, "R-C10-1", "loop over the chosen unitary alignments not found")
    L = floops[0]
    ch = norm(L.target)
    src = L.iter
    fallback_nonempty = False
    if isinstance(src, ast.Name):
        # materialised first; a fallback may guarantee non-emptiness:  if not xs: xs = [<first>]
        defs = assigned_value(f.node, src.id)
        fb = [i for i in W.body if isinstance(i, ast.If) and norm(i.test) in (f"not {src.id}", f"len({src.id}) == 0") and
              any(isinstance(s, ast.Assign) and norm(s.targets[0]) == src.id and isinstance(s.value, ast.List) and len(s.value.elts) >= 1 for s in i.body)]
        fallback_nonempty = bool(fb)
        src = next((d for d in defs if isinstance(d, ast.Call)), src)
        if isinstance(src, ast.Call) and dotted(src.func) in ("list", "tuple", "sorted") and src.args:
            src = src.args[0]
    ok_src = isinstance(src, ast.Call) and norm(src.func) == f"{bav}.take_until_limit" and [norm(a) for a in src.args] == [xl]
    ctx.check(ok_src, "R-C10-2", f, L, "kept unitary alignments = those of the window's best alignment ending before the window head's right end",
              bad_detail="the kept unitary alignments are not best_alignment.take_until_limit(x_limit)", key="kept")
    # --- progress: the iterated collection is definitely non-empty
    g = ctx.fn("Alignment.take_until_limit", "R-C10-1")
    gl = [x for x in walk_no_nested(g.node) if isinstance(x, ast.For)]
    why = "shape"
    gen_ok = False
    head_first = False
    if len(gl) == 1:
        it = gl[0].iter
        inner = it.args[0] if isinstance(it, ast.Call) and dotted(it.func) == "enumerate" and it.args else it
        rest_of = None
        if isinstance(inner, ast.Subscript) and isinstance(inner.slice, ast.Slice) and norm(inner.slice) == "1:" and isinstance(inner.value, ast.Name):
            rest_of, inner = inner.value.id, inner.value          # for x in xs[1:]  after  yield xs[0]
        inner = resolve_local(g.node, inner)
        covers_all = isinstance(inner, ast.Call) and dotted(inner.func) == "sorted" and norm(inner.args[0]) == f"{g.self_name}.unitary_alignments"
        if rest_of is not None:
            # second shape: the head is yielded unconditionally (an emptiness guard apart) before the loop over the rest
            heads = [s for s in g.node.body if isinstance(s, ast.Expr) and isinstance(s.value, ast.Yield) and norm(s.value.value) == f"{rest_of}[0]"]
            if len(heads) == 1 and g.node.body.index(heads[0]) < g.node.body.index(gl[0]):
                conds = conditions_at(g.node, heads[0])
                head_first = all(norm(t) in (f"not {rest_of}", f"len({rest_of}) == 0") and pol is False or
                                 norm(t) in (rest_of, f"len({rest_of}) != 0", f"len({rest_of}) > 0") and pol is True for t, pol in conds)
            why = None if head_first else "the first element is not yielded unconditionally before the loop over the rest"
        else:
            why = _first_iteration_yields(g, gl[0])
        gen_ok = covers_all and why is None
        if not covers_all:
            why = "does not iterate all unitary alignments in end order"
    if gen_ok:
        ctx.ok("R-C10-1", g, gl[0], "take_until_limit yields its first (leftmost-ending) unitary alignment before testing the limit: "
               "never empty for a non-empty alignment", key="nonempty")
    elif fallback_nonempty:
        ctx.ok("R-C10-1", f, L, "an empty selection is replaced by a one-element list: the removal loop always has something to remove", key="nonempty")
    else:
        ctx.bad("R-C10-1", g, gl[0] if gl else None, f"take_until_limit may yield nothing ({why}): when every unitary alignment of a window's best alignment "
                f"reaches past x_limit, get_fast_alignment removes no unit from the working copy and `while copy:` never terminates", key="nonempty")
    # sorted by right end (bounds[1]) and limit test on the same key
    key_ok = False
    if len(gl) == 1:
        srt0 = gl[0].iter.args[0] if isinstance(gl[0].iter, ast.Call) and dotted(gl[0].iter.func) == "enumerate" else gl[0].iter
        if head_first and isinstance(srt0, ast.Subscript):
            srt0 = srt0.value
        srt = resolve_local(g.node, srt0)
        kk = kwarg(srt, "key") if isinstance(srt, ast.Call) else None
        kf = key_function(ctx.model, g, kk)
        key_ok = kf is not None and norm(kf[1]) == f"{kf[0]}.bounds[1]"
        tests = [norm(i.test) for i in ast.walk(gl[0]) if isinstance(i, ast.If)]
        uv = [norm(x) for x in ast.walk(gl[0].target) if isinstance(x, ast.Name)][-1]
        key_ok = key_ok and any(f"{uv}.bounds[1] > {g.params[1]}" in t for t in tests)
    ctx.check(key_ok, "R-C10-1", g, gl[0] if gl else None, "unitary alignments are taken in order of their right end, up to the window limit", key="order")
    # --- removal: every real unit of every kept unitary alignment is removed, guarded by `is not None` only
    inner = [x for x in L.body if isinstance(x, ast.For) and norm(x.iter) == f"{ch}.n_tuple" and isinstance(x.target, ast.Tuple)]
    ok_rm = False
    rm = None
    if len(inner) == 1:
        a, u = norm(inner[0].target.elts[0]), norm(inner[0].target.elts[1])
        rms = [c for c in ast.walk(inner[0]) if isinstance(c, ast.Call) and norm(c.func) == f"{cp}.remove"]
        if len(rms) == 1 and [norm(x) for x in rms[0].args] == [a, u]:
            rm = rms[0]
            ifs = enclosing(inner[0], rm, (ast.If,))
            ok_rm = len(ifs) == 1 and norm(ifs[0].test) == f"{u} is not None" and len(inner[0].body) == 1 and len(ifs[0].body) == 1
    ctx.check(ok_rm, "R-C10-2", f, rm or L, "every real unit of a kept unitary alignment is removed from the working copy (only empty slots are skipped)",
              bad_detail="units of a kept unitary alignment are not all removed from the working copy: they are aligned again in a later window (no partition)",
              key="remove")
    apps = [c for c in ast.walk(L) if isinstance(c, ast.Call) and isinstance(c.func, ast.Attribute) and c.func.attr == "append" and norm(c.args[0]) == ch]
    per_iter = False
    if apps and len(inner) == 1:
        per_iter = cfg.every_iteration_passes(L, {cfg.node_containing(apps[0])}) and cfg.every_iteration_passes(L, {cfg.node_of(inner[0])})
    ctx.check(len(apps) == 1 and per_iter, "R-C10-2", f, apps[0] if apps else L,
              "each kept unitary alignment is appended to the result exactly once, in the same iteration that removes its units",
              bad_detail="appending to the result and removing the units do not happen together for every kept unitary alignment", key="append-remove")
    # nothing else mutates the copy
    fl = p.flow(f)
    others = [c for c in walk_no_nested(f.node) if isinstance(c, ast.Call) and isinstance(c.func, ast.Attribute) and norm(c.func.value) == cp
              and c.func.attr in ("add", "add_annotator", "merge", "reset_bounds", "add_annotation", "add_timeline") ]
    ctx.check(not others, "R-C10-2", f, others[0] if others else None, "nothing but the removals changes the working copy", construct=f"mutators of {cp}", key="only-removals")
    # the window's units are the copy's own units (so removal finds them)
    w = ctx.fn("Continuum.get_first_window", "R-C10-2")
    ws = w.self_name
    adds = [c for c in walk_no_nested(w.node) if isinstance(c, ast.Call) and isinstance(c.func, ast.Attribute) and c.func.attr == "add"]
    ok_adds = bool(adds) and all(len(c.args) == 3 and norm(c.args[1]) == f"{norm(c.args[2]).rsplit('.', 1)[0]}.segment" and norm(c.args[2]).endswith(".annotation")
                                 for c in adds)
    src_ok = any(isinstance(s, ast.Assign) and norm(s.value) == f"list({ws}._annotations.values())" for s in walk_no_nested(w.node))
    ctx.check(ok_adds and src_ok, "R-C10-2", w, adds[0] if adds else None,
              "the window is filled with copies (same segment, same label) of the continuum's own units, under their own annotator",
              bad_detail="window units are not (segment, label) copies of the continuum's units", key="window-units")
    rets = [r for r in walk_no_nested(w.node) if isinstance(r, ast.Return)]
    ann = [c for c in walk_no_nested(w.node) if isinstance(c, ast.Call) and norm(c.func).endswith(".add_annotator")]
    ctx.check(bool(ann) and len(rets) == 1, "R-C10-2", w, ann[0] if ann else None,
              "the window has every annotator of the continuum (so its best alignment has one slot per annotator)", key="window-annotators")


def rule_fallback(ctx: Ctx):
    M = ctx.model
    j = ctx.fn("_compute_fast_alignment_job", "R-C10-4")
    dp, cp = j.params
    ifs = [i for i in walk_no_nested(j.node) if isinstance(i, ast.If)]
    rets = [r for r in walk_no_nested(j.node) if isinstance(r, ast.Return)]
    ok = len(ifs) == 1 and norm(ifs[0].test) in (f"{cp}.best_window_size == np.inf", f"np.isinf({cp}.best_window_size)") and \
        len(ifs[0].body) == 1 and isinstance(ifs[0].body[0], ast.Return) and pnorm(M, ifs[0].body[0].value) == f"{cp}.get_best_alignment({dp})" and \
        any(pnorm(M, r.value) == f"{cp}.get_fast_alignment({dp}, {cp}.best_window_size)" for r in rets) and len(rets) == 2
    ctx.check(ok, "R-C10-4", j, ifs[0] if ifs else None, "fast mode uses the exact algorithm exactly when best_window_size is the 'disadvantageous' sentinel (inf)",
              bad_detail="the fast job does not fall back to get_best_alignment exactly on the sentinel window size", key="job")
    init = ctx.fn("Continuum.__init__", "R-C10-4")
    st = [s for s in walk_no_nested(init.node) if isinstance(s, ast.Assign) and norm(s.targets[0]) == f"{init.self_name}.best_window_size"]
    ctx.check(len(st) == 1 and norm(st[0].value) in ("np.inf", "float('inf')", "math.inf"), "R-C10-4", init, st[0] if st else None,
              "a new continuum starts with the sentinel window size (inf): not measured = exact algorithm", key="default")
    for qn in ("Continuum.copy", "Continuum.copy_flush"):
        c = ctx.fn(qn, "R-C10-4")
        from .c13 import _carried_fields
        try:
            ok = "best_window_size" in _carried_fields(ctx, c)      # direct store, or through the method that builds the new continuum
        except AnalysisError:
            ok = any(isinstance(s, ast.Assign) and norm(s.targets[0]).endswith(".best_window_size") and norm(s.value) == f"{c.self_name}.best_window_size"
                     for s in walk_no_nested(c.node))
        ctx.check(ok, "R-C10-4", c, None, f"{qn} carries the window size: samples built on copy_flush() use the measured size", construct="best_window_size", key=f"carry:{qn}")
    m = ctx.fn("Continuum.measure_best_window_size", "R-C10-4")
    ms = m.self_name
    stores = [s for s in walk_no_nested(m.node) if isinstance(s, ast.Assign) and norm(s.targets[0]) == f"{ms}.best_window_size"]
    okm = False
    if len(stores) == 1:
        ifs = enclosing(m.node, stores[0], (ast.If,))
        v = norm(stores[0].value)
        ws = None
        for s in walk_no_nested(m.node):
            if isinstance(s, ast.Assign) and isinstance(s.value, ast.Call) and norm(s.value.func) == "np.arange" and len(s.value.args) == 2 and norm(s.value.args[0]) == "1":
                ws = norm(s.targets[0])
        in_body = len(ifs) == 1 and any(stores[0] is x for b in ifs[0].body for x in ast.walk(b))
        okm = in_body and ws is not None and v.startswith(f"{ws}[") and isinstance(ifs[0].test, ast.Compare) and \
            isinstance(ifs[0].test.ops[0], (ast.Lt, ast.Gt, ast.LtE, ast.GtE))
    ctx.check(okm, "R-C10-4", m, stores[0] if stores else None,
              "a finite window size (>= 1, taken from np.arange(1, ...)) is recorded only in the branch where windowing is estimated to be advantageous",
              bad_detail="measure_best_window_size assigns the window size outside the 'advantageous' branch, or a size that can be < 1", key="measure")


def run(ctx: Ctx):
    ctx.clauses += [
        "R-C10-1 progress: each pass of `while copy:` removes at least one unit - the kept unitary alignments are never empty (first element yielded before the limit test, or an explicit fallback), each holds a real unit (C01) and every real unit is removed",
        "R-C10-2 partition by removal: private copy, window from the copy's remaining units, every kept unitary alignment appended once and all its real units removed in the same iteration, nothing else changes the copy",
        "R-C10-3 reported disorder = sum(kept unitary disorders) / mean units per annotator of the whole continuum (same expression as C03)",
        "R-C10-4 fallback: exact algorithm iff window size is the sentinel inf; sentinel is the constructor default, carried by copy/copy_flush; a finite size >= 1 is recorded only in the advantageous branch",
    ]
    ctx.not_decided += ["fast >= best (mathematical consequence of R-C10-2/3: a partition's disorder is at least the minimum)", "equality when the window covers everything",
                        "termination of get_first_window's inner loops (argmin reasoning on x_limit: assumed)"]
    ctx.assumptions += ["C01: the best alignment of a non-empty window is a non-empty partition whose unitary alignments hold a real unit",
                        "C13: Unit order is strict, so Continuum.remove finds the unit"]
    rule_progress(ctx)
    check_alignment_record(ctx, "R-C10-2")        # the kept unitary alignments are handed to Alignment(...): it keeps them all
    check_unitary_record(ctx, "R-C10-2", nb_units=False)
    rule_fast_cache(ctx)
    # re-label the C03 rule ids of the shared function
    for o in ctx.obls:
        if o.rule == "R-C03-4":
            o.rule = "R-C10-3"
            o.key = o.key.replace("R-C03-4", "R-C10-3")
    ctx.counts["R-C10-3"] = ctx.counts.pop("R-C03-4", 0)
    rule_fallback(ctx)
