"""C11 - the soft alignment is a minimum-disorder cover (DESIGN 4/C11): sibling agreement with the best alignment."""
from __future__ import annotations

import ast

from ..core import Ctx
from ..model import canon, canon_tree, norm
from . import ilp, nbk

SOFT, BEST = "Continuum.get_best_soft_alignment", "Continuum.get_best_alignment"


def run(ctx: Ctx):
    ctx.clauses += [
        "R-C11-1 cover formulation: every cp.Problem of get_best_soft_alignment (both solver branches) normalises to 1 <= A@x < +inf over boolean x, objective Minimize(disorders . x)",
        "R-C11-2 same candidates, build_A, sizes, decoding (slots, own units, null decoding) and cached disorder expression as the best alignment; result class SoftAlignment",
        "R-C11-3 (informative) sibling comparison with get_best_alignment outside the solve step; a difference is reported, not judged",
        "R-C11-4 candidates are complete for covers too: same enumeration / cut as C07 (source, threshold, final cut)",
    ]
    ctx.not_decided += ["solver optimality", "soft <= best (mathematical consequence of cover being a relaxation of partition)"]
    ctx.assumptions += ["cvxpy/CBC/GLPK solve the posed ILP exactly"]
    F = ilp.analyse(ctx, SOFT, "R-C11-1")
    ilp.check_formulation(ctx, F, {"problems": "R-C11-1", "interval": "R-C11-1", "objective": "R-C11-1", "variable": "R-C11-1",
                                   "same-candidates": "R-C11-2", "solved": "R-C11-1"}, 1.0, ilp.INF,
                          "cover (every unit in at least one chosen candidate)")
    ctx.floor("R-C11-1", 6, "formulation obligations of the soft alignment")
    ilp.check_sizes(ctx, F, "R-C11-2")
    ilp.check_decoding(ctx, F, {"threshold": "R-C11-2", "same-ids": "R-C11-2", "slots": "R-C11-2", "own-unit": "R-C11-2",
                                "null-decode": "R-C11-2", "ua-built": "R-C11-2", "all-emitted": "R-C11-2", "ua-disorder": "R-C11-2", "result": "R-C11-2",
                                "cached": "R-C11-2", "shared-decoding": "R-C11-2"}, "SoftAlignment")
    nbk.check_build_A(ctx, {"A-shape": "R-C11-2", "A-offset": "R-C11-2", "A-cell": "R-C11-2", "A-null": "R-C11-2"})
    nbk.check_candidates(ctx, {"source": "R-C11-4", "sizes-with-null": "R-C11-4", "threshold": "R-C11-4", "filter-op": "R-C11-4", "filter-extra": "R-C11-4",
                               "final-slice": "R-C11-4", "c2n": "R-C11-4", "cost-domain": "R-C11-4", "cost-term": "R-C11-4", "cost-closed": "R-C11-4",
                               "final-normalise": "R-C11-4", "matrix-domain": "R-C11-4", "matrix-alloc": "R-C11-4", "matrix-cover": "R-C11-4", "append": "R-C11-4"})
    # R-C11-3 statement-level sibling comparison
    fs, fb = ctx.fn(SOFT, "R-C11-3"), ctx.fn(BEST, "R-C11-3")

    def canon_body(f):
        # alpha-normalise every local of the function in one go, then compare statement by statement
        import copy as _c
        fn = _c.copy(f.node)
        # the solve step: the try/except, every statement that uses the modelling library, and the plain locals that only feed those
        # (its formulation is compared by R-C11-1 / R-C08-1; here only what surrounds it)
        solve = [x for x in f.node.body if isinstance(x, ast.Try) or any(isinstance(y, ast.Attribute) and isinstance(y.value, ast.Name) and y.value.id in ("cp", "cvxpy")
                                                                          for y in ast.walk(x))]
        for _ in range(4):
            for x in f.node.body:
                if x in solve or not (isinstance(x, ast.Assign) and len(x.targets) == 1 and isinstance(x.targets[0], ast.Name)):
                    continue
                nm = x.targets[0].id
                reads = [y for st_ in f.node.body for y in ast.walk(st_) if isinstance(y, ast.Name) and y.id == nm and isinstance(y.ctx, ast.Load)]
                inside = {id(y) for st_ in solve for y in ast.walk(st_)}
                if reads and all(id(y) in inside for y in reads) and not any(isinstance(y, ast.Call) and not (isinstance(y.func, ast.Name) and y.func.id == "len")
                                                                            for y in ast.walk(x.value)):
                    solve.append(x)
        body2 = []
        for x in f.node.body:
            if x in solve:
                if not (body2 and isinstance(body2[-1], ast.Expr) and isinstance(body2[-1].value, ast.Constant) and body2[-1].value.value == "<solve step>"):
                    body2.append(ast.copy_location(ast.Expr(value=ast.Constant(value="<solve step>")), x))
            else:
                body2.append(x)
        # names bound inside the solve step and used after it (the variable vector) get role names by order of first use
        bound_in_solve = {y.id for st_ in solve for y in ast.walk(st_) if isinstance(y, ast.Name) and isinstance(y.ctx, ast.Store)}
        body2 = [_c.deepcopy(x) for x in body2]
        role: dict = {}
        for x in body2:
            for y in ast.walk(x):
                if isinstance(y, ast.Name) and y.id in bound_in_solve:
                    role.setdefault(y.id, f"solve_out_{len(role)}")
                    y.id = role[y.id]
        fn.body = body2
        renamed = canon_tree(fn, whole_function=True)
        out = []
        for s in renamed.body:
            if isinstance(s, ast.Expr) and isinstance(s.value, ast.Constant):
                if s.value.value == "<solve step>":
                    if not (out and out[-1] == "<solve step>"):
                        out.append("<solve step>")
                continue
            if isinstance(s, ast.ImportFrom):
                out.append("<import>")
                continue
            if isinstance(s, ast.Assign) and isinstance(s.value, ast.Call) and isinstance(s.value.func, ast.Attribute):
                h = ctx.model.find_method(f.cls, s.value.func.attr) if f.cls is not None else None
                if h is not None and any(isinstance(c, ast.Call) and norm(c.func) in ("cp.Problem", "cvxpy.Problem") for c in ast.walk(h.node)):
                    out.append("<solve step>")      # extracted solve step (formulation compared by R-C11-1 after inlining)
                    continue
            t = norm(s)
            t = t.replace("SoftAlignment", "Alignment")
            out.append(t)
        return out
    a, b = canon_body(fs), canon_body(fb)
    diffs = [(x, y) for x, y in zip(a, b) if x != y]
    # informative only: identical siblings are reported as such; when they differ nothing is concluded here (an edit of one of the two
    # functions is not a defect by itself) - the soft function is decided on its own by R-C11-1 / R-C11-2 / R-C11-4 above
    if len(a) == len(b) and not diffs:
        ctx.ok("R-C11-3", fs, None, f"all {len(a)} top-level statements outside the solve step are identical to get_best_alignment's (up to the result class)",
               construct="(statement-wise comparison)", key="siblings")
    else:
        ctx.ok("R-C11-3", fs, None, f"get_best_soft_alignment is not statement-wise identical to get_best_alignment outside the solve step "
               f"({len(diffs)} differing statement(s)): no conclusion drawn from that, the function is decided by its own rules",
               construct="(statement-wise comparison)", key="siblings")
