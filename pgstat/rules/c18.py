"""C18 - file import and export are faithful (DESIGN 4/C18): reader/writer role tables, csv protocol, sibling readers."""
from __future__ import annotations

import ast
from typing import Dict, List, Optional

from ..core import Ctx
from ..model import dotted, kwarg, norm, walk_no_nested
from .common import assigned_value, bool_equiv, check_annotator_key, check_segment_verbatim, conditions_at, enclosing, expand_locals, pargs, resolve_local

ROLES = ("annotator", "label", "start", "end")


def _open_of(f, file_expr: ast.AST) -> Optional[ast.Call]:
    """the open(...) call that produced the file object handed to csv.reader/writer"""
    nm = norm(file_expr)
    for w in walk_no_nested(f.node):
        if isinstance(w, ast.With):
            for it in w.items:
                if it.optional_vars is not None and norm(it.optional_vars) == nm and isinstance(it.context_expr, ast.Call):
                    return it.context_expr
    vs = assigned_value(f.node, nm)
    return vs[0] if len(vs) == 1 and isinstance(vs[0], ast.Call) else None


def _newline_ok(op: Optional[ast.Call]) -> bool:
    if op is None or dotted(op.func) not in ("open", "io.open") and not norm(op.func).endswith(".open"):
        return False
    nl = kwarg(op, "newline")
    return isinstance(nl, ast.Constant) and nl.value == ""


def run(ctx: Ctx):
    ctx.clauses += [
        "R-C18-1 csv reader and writer agree on the column roles (annotator, label, start, end) and both receive the delimiter parameter",
        "R-C18-2 csv protocol: every file handed to csv.reader / csv.writer is opened with newline='' (otherwise embedded CR/LF in quoted fields are translated)",
        "R-C18-3 zero-length rows: the ValueError of add() is swallowed iff discard_invalid_rows, re-raised otherwise; every reader inserts through add()",
        "R-C18-4 add_textgrid / add_elan sibling agreement: tier filter, tier-name-vs-label branch, the file's exact times passed to Segment; one named difference (TextGrid skips empty marks)",
        "R-C18-5 rttm: one continuum.add_annotation(uri, annotation) per file uri; add_annotation adds (annotator, segment, label) per track",
    ]
    ctx.not_decided += ["the external parsers (textgrid, pympi, pyannote.database.load_rttm)", "text round-trip of floats (csv writes repr, float() parses it back exactly for finite floats)",
                        "unlabelled units: csv writes '' and reads back the label '' (not None) - outside the property (labelled units)"]
    ctx.assumptions += ["csv module quoting round-trips any field when the file is opened with newline=''"]
    M = ctx.model
    # ---------------- writer
    check_annotator_key(ctx, "R-C18-3")
    check_segment_verbatim(ctx, "R-C18-4")      # "with the file's exact times"
    from .c13 import add_guard_obligation
    add_guard_obligation(ctx, "R-C18-3")      # a discarded row must leave no trace: add() refuses before it writes anything       # every reader inserts through add(): the annotator text of the file is the annotator of the unit
    w = ctx.fn("Continuum.to_csv", "R-C18-1")
    ws = w.self_name
    wcalls = [c for c in walk_no_nested(w.node) if isinstance(c, ast.Call) and norm(c.func) == "csv.writer"]
    ctx.require(len(wcalls) == 1, "R-C18-1", "csv.writer call not found in to_csv")
    wc = wcalls[0]
    rows = [c for c in walk_no_nested(w.node) if isinstance(c, ast.Call) and isinstance(c.func, ast.Attribute) and c.func.attr in ("writerow", "writerows")]
    ctx.require(len(rows) == 1, "R-C18-1", "single writerow / writerows call expected")
    loop = enclosing(w.node, rows[0], (ast.For,))
    wr: Dict[str, int] = {}
    n_cols = -1
    ok_iter = False
    it_node = tg_node = row_node = None
    if rows[0].func.attr == "writerows" and rows[0].args:
        # writer.writerows(<row> for annotator, unit in self)
        comp = expand_locals(w.node, rows[0].args[0])
        if isinstance(comp, (ast.GeneratorExp, ast.ListComp)) and len(comp.generators) == 1 and not comp.generators[0].ifs:
            it_node, tg_node, row_node = comp.generators[0].iter, comp.generators[0].target, comp.elt
    elif loop:
        it_node, tg_node, row_node = loop[-1].iter, loop[-1].target, rows[0].args[0]
    if it_node is not None and norm(it_node) == ws and isinstance(tg_node, ast.Tuple):
        a, u = norm(tg_node.elts[0]), norm(tg_node.elts[1])
        ok_iter = True
        row = expand_locals(w.node, row_node)
        if isinstance(row, (ast.List, ast.Tuple)):
            n_cols = len(row.elts)
            for i, e in enumerate(row.elts):
                t = norm(e)
                role = {a: "annotator", f"{u}.annotation": "label", f"{u}.segment.start": "start", f"{u}.segment.end": "end"}.get(t)
                if role:
                    wr[role] = i
    ctx.check(ok_iter, "R-C18-1", w, loop[-1] if loop else rows[0], "one row per (annotator, unit) of the continuum", key="writer-iter")
    ctx.check(sorted(wr) == sorted(ROLES) and n_cols == 4, "R-C18-1", w, rows[0],
              f"writer columns: {wr}", bad_detail=f"writer does not emit the four roles exactly once: {wr}", key="writer-roles")
    ctx.check(kwarg(wc, "delimiter") is not None and norm(kwarg(wc, "delimiter")) == "delimiter" and "delimiter" in w.params, "R-C18-1", w, wc,
              "delimiter parameter reaches csv.writer", bad_detail="to_csv's delimiter does not reach csv.writer", key="writer-delim")
    ctx.check(_newline_ok(_open_of(w, wc.args[0])), "R-C18-2", w, _open_of(w, wc.args[0]) or wc, "output file opened with newline=''",
              bad_detail="to_csv opens the file without newline='': on write '\\r\\n' terminators get translated and embedded newlines are altered "
                         "(csv module documentation)", key="writer-newline")
    # ---------------- reader
    r = ctx.fn("Continuum.from_csv", "R-C18-1")
    rcalls = [c for c in walk_no_nested(r.node) if isinstance(c, ast.Call) and norm(c.func) == "csv.reader"]
    ctx.require(len(rcalls) == 1, "R-C18-1", "csv.reader call not found in from_csv")
    rc = rcalls[0]
    rv = None
    for n in walk_no_nested(r.node):
        if isinstance(n, ast.Assign) and n.value is rc:
            rv = norm(n.targets[0])
    rloops = [L for L in walk_no_nested(r.node) if isinstance(L, ast.For) and norm(L.iter) in (rv, norm(rc))]
    ctx.require(len(rloops) == 1, "R-C18-1", "loop over the csv rows not found")
    rowv = norm(rloops[0].target)
    adds = [c for c in ast.walk(rloops[0]) if isinstance(c, ast.Call) and isinstance(c.func, ast.Attribute) and c.func.attr == "add"]
    ctx.require(len(adds) == 1, "R-C18-1", "single continuum.add(...) per row expected")
    ad = adds[0]
    rd: Dict[str, int] = {}

    def col(e: ast.AST) -> Optional[int]:
        e = resolve_local(rloops[0], e) if isinstance(e, ast.Name) else e
        if isinstance(e, ast.Call) and dotted(e.func) == "float" and len(e.args) == 1:
            e = e.args[0]
        if isinstance(e, ast.Subscript) and norm(e.value) == rowv and isinstance(e.slice, ast.Constant):
            return e.slice.value
        return None
    args = list(ad.args)
    seg = None
    if len(args) >= 2:
        rd["annotator"] = col(args[0])
        seg = args[1]
        if isinstance(seg, ast.Name):
            sv = [s.value for s in ast.walk(rloops[0]) if isinstance(s, ast.Assign) and norm(s.targets[0]) == seg.id]
            seg = sv[0] if len(sv) == 1 else seg
        if isinstance(seg, ast.Call) and dotted(seg.func) == "Segment" and len(seg.args) == 2:
            rd["start"], rd["end"] = col(seg.args[0]), col(seg.args[1])
            floats = all(isinstance(x, ast.Call) and dotted(x.func) == "float" for x in seg.args)
        else:
            floats = False
        lab = args[2] if len(args) >= 3 else kwarg(ad, "annotation")
        rd["label"] = col(lab) if lab is not None else None
    ctx.check(rd == wr, "R-C18-1", r, ad, f"reader takes the roles from the columns the writer puts them in: {rd}",
              bad_detail=f"reader/writer column roles disagree: reader {rd}, writer {wr}", key="reader-roles")
    ctx.check(bool(seg is not None and floats), "R-C18-1", r, ad, "times are parsed with float() and passed unchanged to Segment", key="reader-times")
    ctx.check(kwarg(rc, "delimiter") is not None and norm(kwarg(rc, "delimiter")) == "delimiter" and "delimiter" in r.params, "R-C18-1", r, rc,
              "delimiter parameter reaches csv.reader", bad_detail="from_csv's delimiter does not reach csv.reader", key="reader-delim")
    # dialect agreement: every formatting parameter of the csv module must be the same on both sides
    DIALECT = ("delimiter", "quotechar", "escapechar", "doublequote", "skipinitialspace", "quoting", "strict", "dialect")
    rk = {k.arg: norm(k.value) for k in rc.keywords if k.arg in DIALECT}
    wk = {k.arg: norm(k.value) for k in wc.keywords if k.arg in DIALECT}
    pos_r = [norm(a) for a in rc.args[1:]]
    pos_w = [norm(a) for a in wc.args[1:]]
    ctx.check(rk == wk and pos_r == pos_w, "R-C18-1", r, rc, f"csv.reader and csv.writer use the same dialect parameters ({rk or 'defaults'})",
              bad_detail=f"csv dialect differs between reader {rk} {pos_r} and writer {wk} {pos_w}: what to_csv writes is not parsed back the same way "
                         f"(e.g. skipinitialspace strips the leading blanks the writer leaves unquoted; a different quotechar/escapechar/doublequote "
                         f"misreads quoted fields)", key="dialect")
    # text encoding of the two open() calls must agree (a label written in one encoding must be read in the same)
    ro, wo = _open_of(r, rc.args[0]), _open_of(w, wc.args[0])
    enc = lambda o: {k.arg: norm(k.value) for k in (o.keywords if o is not None else []) if k.arg in ("encoding", "errors")}
    ctx.check(enc(ro) == enc(wo), "R-C18-2", r, ro or rc, f"reader and writer open the file with the same text encoding ({enc(ro) or 'platform default on both sides'})",
              bad_detail=f"from_csv opens with {enc(ro)} but to_csv with {enc(wo)}: non-ASCII annotators / labels do not round-trip", key="encoding")
    ctx.check(_newline_ok(_open_of(r, rc.args[0])), "R-C18-2", r, _open_of(r, rc.args[0]) or rc, "input file opened with newline=''",
              bad_detail="from_csv opens the file without newline='': universal-newline translation turns a quoted '\\r' or '\\r\\n' inside a label into '\\n'",
              key="reader-newline")
    # other csv users of the package (CLI report writer) are outside the property; inventory only
    # ---------------- R-C18-3
    trs = [t for t in ast.walk(rloops[0]) if isinstance(t, ast.Try) and any(ad is x for b in t.body for x in ast.walk(b))]
    ok3 = False
    if len(trs) == 1 and len(trs[0].handlers) == 1 and trs[0].handlers[0].type is not None and norm(trs[0].handlers[0].type) == "ValueError":
        h = trs[0].handlers[0]
        def outcome(stmts, flag: bool) -> str:
            """'raise' / 'fall' / '?' for the handler block when discard_invalid_rows == flag"""
            for s in stmts:
                if isinstance(s, ast.Raise):
                    return "raise"
                if isinstance(s, ast.If):
                    t = norm(s.test)
                    if t == "discard_invalid_rows":
                        o = outcome(s.body if flag else s.orelse, flag)
                    elif t == "not discard_invalid_rows":
                        o = outcome(s.orelse if flag else s.body, flag)
                    else:
                        return "?"
                    if o != "fall":
                        return o
                elif any(isinstance(x, (ast.Raise, ast.Return, ast.Break, ast.Continue)) for x in ast.walk(s)) or \
                        isinstance(s, (ast.For, ast.While, ast.Try, ast.With)):
                    return "?"
            return "fall"
        ok3 = outcome(h.body, True) == "fall" and outcome(h.body, False) == "raise"
    ctx.check(ok3, "R-C18-3", r, trs[0] if trs else ad, "invalid (zero-length) rows are skipped iff discard_invalid_rows, the error is re-raised otherwise",
              bad_detail="the ValueError of a zero-length row is not {swallowed iff discard_invalid_rows, re-raised otherwise}", key="invalid-rows")
    ctx.check("discard_invalid_rows" in r.params, "R-C18-3", r, None, "parameter discard_invalid_rows exists", construct="signature", key="param")
    rets = [x for x in walk_no_nested(r.node) if isinstance(x, ast.Return)]
    cont = norm(ad.func.value)
    cdef = assigned_value(r.node, cont)
    ctx.check(len(rets) == 1 and norm(rets[0].value) == cont and len(cdef) == 1 and norm(cdef[0]) in ("cls()", "Continuum()"), "R-C18-3", r,
              rets[0] if rets else None, "the loaded continuum starts empty and is returned", key="returns")

    # ---------------- R-C18-4 siblings
    def tier_reader(qn, inner_src_ok, start_end, label_expr, allow_skip):
        g = ctx.fn(qn, "R-C18-4")
        gs = g.self_name
        ann = g.params[1]
        tloops = [L for L in g.node.body if isinstance(L, ast.For)]
        if len(tloops) != 1 or not isinstance(tloops[0].target, ast.Name):
            ctx.undecided("R-C18-4", g, None, "loop over the tier names not found", key=f"{qn}:tiers")
            return
        T = tloops[0]
        tn = T.target.id
        inner = [L for L in ast.walk(T) if isinstance(L, ast.For) and L is not T and not any(isinstance(P, ast.For) and P is not T and P is not L and
                                                                                          any(L is y for y in ast.walk(P)) for P in ast.walk(T))]
        if len(inner) != 1:
            ctx.undecided("R-C18-4", g, T, "loop over the tier's annotations not found", key=f"{qn}:inner")
            return
        I = inner[0]
        # the condition under which the tier's annotations are read at all (guard clause or enclosing if, either polarity)
        conds = [(t_, tr) for (t_, tr) in conditions_at(g.node, I) if any(t_ is y for y in ast.walk(T))]
        reached = ast.BoolOp(op=ast.And(), values=[ast.Constant(value=True)] + [t_ if tr else ast.UnaryOp(op=ast.Not(), operand=t_) for t_, tr in conds])
        want_reached = ast.parse(f"not (selected_tiers is not None and {tn} not in selected_tiers)", mode="eval").body
        okf = bool_equiv(reached, want_reached) is True
        ctx.check(okf, "R-C18-4", g, conds[0][0] if conds else T, "a tier is skipped iff selected_tiers is given and does not contain it",
                  bad_detail="tier selection differs from `selected_tiers is not None and tier not in selected_tiers`", key=f"{qn}:filter")
        ctx.check(inner_src_ok(g, I, tn), "R-C18-4", g, I, "iterates the annotations of that tier", key=f"{qn}:source")
        body = list(I.body)
        # annotations that are skipped: a guard clause `if c: continue`, or the rest of the body wrapped in `if not c:`
        skip_tests = []
        for s in [s for s in body if isinstance(s, ast.If) and len(s.body) == 1 and isinstance(s.body[0], ast.Continue) and not s.orelse]:
            skip_tests.append((s.test, s))
            body.remove(s)
        while len(body) == 1 and isinstance(body[0], ast.If) and not body[0].orelse and norm(body[0].test) not in ("use_tier_as_annotation", "not use_tier_as_annotation"):
            skip_tests.append((ast.UnaryOp(op=ast.Not(), operand=body[0].test), body[0]))
            body = list(body[0].body)
        for t_, s in skip_tests:
            allowed = allow_skip is not None and bool_equiv(t_, ast.parse(allow_skip.replace("{interval}", norm(I.target)), mode="eval").body) is True
            ctx.check(allowed, "R-C18-4", g, s,
                      "named exception: TextGrid interval tiers contain filler intervals with an empty mark, which are skipped",
                      bad_detail=f"annotations are skipped on `{norm(t_)}`: not every non-empty interval of the selected tiers becomes a unit",
                      key=f"{qn}:skip")
        # evaluate the body once per value of use_tier_as_annotation: straight-line locals are substituted, the flag picks the branch
        import copy as _copy

        class _Subst(ast.NodeTransformer):
            def __init__(self, env):
                self.env = env

            def visit_Name(self, n):
                if isinstance(n.ctx, ast.Load) and n.id in self.env:
                    return _copy.deepcopy(self.env[n.id])
                return n

        def _fold_flag(e, flag: bool):
            class F(ast.NodeTransformer):
                def visit_IfExp(self, n):
                    self.generic_visit(n)
                    t = norm(n.test)
                    if t == "use_tier_as_annotation":
                        return n.body if flag else n.orelse
                    if t == "not use_tier_as_annotation":
                        return n.orelse if flag else n.body
                    return n
            return F().visit(e)

        def evaluate(stmts, flag: bool, env: dict, adds: list) -> bool:
            for s in stmts:
                if isinstance(s, ast.Assign) and len(s.targets) == 1 and isinstance(s.targets[0], ast.Name):
                    env[s.targets[0].id] = _Subst(env).visit(_copy.deepcopy(s.value))
                elif isinstance(s, ast.If) and norm(s.test) in ("use_tier_as_annotation", "not use_tier_as_annotation"):
                    take_body = flag == (norm(s.test) == "use_tier_as_annotation")
                    if not evaluate(s.body if take_body else s.orelse, flag, env, adds):
                        return False
                elif isinstance(s, ast.Expr) and isinstance(s.value, ast.Call) and norm(s.value.func) == f"{gs}.add":
                    adds.append((s.value, [norm(_fold_flag(_Subst(env).visit(_copy.deepcopy(a)), flag)) for a in pargs(M, s.value)]))
                else:
                    return False
            return True
        st, en = start_end(I)
        for flag, want, nm in ((True, tn, "tier"), (False, label_expr(I), "label")):
            adds: list = []
            if not evaluate(body, flag, {}, adds):
                ctx.undecided("R-C18-4", g, I, "body is not made of local assignments, `if use_tier_as_annotation` and add(...) calls: shape not recognised "
                              "(not a verdict)", key=f"{qn}:{nm}")
                continue
            ok = len(adds) == 1 and adds[0][1] == [ann, f"Segment({st}, {en})", want]
            ctx.check(ok, "R-C18-4", g, adds[0][0] if adds else I, f"{nm} mode: add(annotator, Segment(file start, file end), {want})",
                      bad_detail=f"{nm} mode does not add exactly (annotator, Segment({st}, {en}), {want}): adds {[a for _, a in adds]}", key=f"{qn}:{nm}")
    tier_reader("Continuum.add_textgrid",
                lambda g, I, tn: norm(I.iter) in [norm(s.targets[0] if isinstance(s, ast.Assign) else s.target) for s in ast.walk(g.node)
                                                 if isinstance(s, (ast.Assign, ast.AnnAssign)) and isinstance(s.value, ast.Call) and
                                                 isinstance(s.value.func, ast.Attribute) and s.value.func.attr == "getFirst" and [norm(a) for a in s.value.args] == [tn]],
                lambda I: (f"{norm(I.target)}.minTime", f"{norm(I.target)}.maxTime"),
                lambda I: f"{norm(I.target)}.mark", "not {interval}.mark")
    tier_reader("Continuum.add_elan",
                lambda g, I, tn: isinstance(I.iter, ast.Call) and isinstance(I.iter.func, ast.Attribute) and I.iter.func.attr == "get_annotation_data_for_tier"
                and [norm(a) for a in I.iter.args] == [tn],
                lambda I: (norm(I.target.elts[0]), norm(I.target.elts[1])) if isinstance(I.target, ast.Tuple) and len(I.target.elts) >= 3 else ("?", "?"),
                lambda I: norm(I.target.elts[2]) if isinstance(I.target, ast.Tuple) and len(I.target.elts) >= 3 else "?", None)
    # ---------------- R-C18-5
    g = ctx.fn("Continuum.from_rttm", "R-C18-5")
    loops = [L for L in walk_no_nested(g.node) if isinstance(L, ast.For)]
    ok = False
    if len(loops) == 1 and isinstance(loops[0].target, ast.Tuple) and norm(loops[0].iter).endswith(".items()"):
        u, a = norm(loops[0].target.elts[0]), norm(loops[0].target.elts[1])
        src = assigned_value(g.node, norm(loops[0].iter)[:-8])
        cs = [c for c in ast.walk(loops[0]) if isinstance(c, ast.Call) and norm(c.func).endswith(".add_annotation")]
        ok = len(cs) == 1 and [norm(x) for x in pargs(M, cs[0])] == [u, a] and len(src) == 1 and norm(src[0].func) == "load_rttm" if src and isinstance(src[0], ast.Call) else False
    ctx.check(ok, "R-C18-5", g, loops[0] if loops else None, "one add_annotation(uri, annotation) per uri of the rttm file: uri used as annotator", key="rttm")
    h = ctx.fn("Continuum.add_annotation", "R-C18-5")
    loops = [L for L in walk_no_nested(h.node) if isinstance(L, ast.For)]
    ok = False
    if len(loops) == 1 and isinstance(loops[0].target, ast.Tuple) and len(loops[0].target.elts) == 3 and \
            norm(loops[0].iter) == f"{h.params[2]}.itertracks(yield_label=True)":
        sg, _, lb = [norm(x) for x in loops[0].target.elts]
        cs = [c for c in ast.walk(loops[0]) if isinstance(c, ast.Call) and norm(c.func) == f"{h.self_name}.add"]
        ok = len(cs) == 1 and [norm(x) for x in cs[0].args] == [h.params[1], sg, lb]
    ctx.check(ok, "R-C18-5", h, loops[0] if loops else None, "every track becomes add(annotator, segment, label)", key="add_annotation")
    t = ctx.fn("Continuum.add_timeline", "R-C18-5")
    loops = [L for L in walk_no_nested(t.node) if isinstance(L, ast.For)]
    ok = len(loops) == 1 and norm(loops[0].iter) == t.params[2] and any(
        isinstance(c, ast.Call) and norm(c.func) == f"{t.self_name}.add" and [norm(x) for x in c.args] == [t.params[1], norm(loops[0].target)]
        for c in ast.walk(loops[0]))
    ctx.check(ok, "R-C18-5", t, loops[0] if loops else None, "every segment of a timeline becomes an unlabelled unit", key="add_timeline")
