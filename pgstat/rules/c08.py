"""C08 - alignment results do not depend on the MIP back-end (DESIGN 4/C08): sibling agreement of the solver branches."""
from __future__ import annotations

from ..core import Ctx
from . import ilp

FNS = [("Continuum.get_best_alignment", 1.0, 1.0, "partition", "Alignment"),
       ("Continuum.get_best_soft_alignment", 1.0, ilp.INF, "cover", "SoftAlignment")]


def run(ctx: Ctx):
    ctx.clauses += [
        "R-C08-1 in both alignment functions the try body (CBC) and the handler (GLPK) pose the same problem: identical objective and identical normalised constraint interval",
        "R-C08-2 fallback really happens: `import cylp` inside the try, handler catches ImportError and cp.SolverError, handler solves with GLPK_MI and falls through",
        "R-C08-3 each branch's problem is the right one for the function (partition: ==1, cover: >=1) and decoding after the try is shared by both back-ends",
    ]
    ctx.not_decided += ["that CBC and GLPK reach the same optimum value (solver correctness)"]
    ctx.assumptions += ["cvxpy translates the posed problem faithfully for both back-ends"]
    for qn, lo, up, what, cls in FNS:
        F = ilp.analyse(ctx, qn, "R-C08-1")
        ilp.check_fallback(ctx, F, {"same-problem": "R-C08-1", "solvers": "R-C08-2", "handler": "R-C08-2", "import-in-try": "R-C08-2",
                                    "handler-continues": "R-C08-2"})
        ilp.check_formulation(ctx, F, {"problems": "R-C08-3", "interval": "R-C08-3", "objective": "R-C08-3", "solved": "R-C08-2"}, lo, up, what)
        ilp.check_decoding(ctx, F, {"shared-decoding": "R-C08-3", "threshold": "R-C08-3"}, cls)
    ctx.floor("R-C08-1", 2, "try/handler problem pairs")
