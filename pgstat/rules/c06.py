"""C06 - seeded results are reproducible under any thread schedule (DESIGN 4/C06)."""
from __future__ import annotations

import ast
from typing import Dict, List, Set

from ..cfg import CFG
from ..core import Ctx
from ..model import AnalysisError, FuncInfo, Ty, dotted, norm, walk_no_nested
from .common import assigned_value, check_sampler_init, enclosing, ext_calls, prog, stores_to, top_level_index

POOL_FUNCS = ["Continuum.compute_gamma", "GammaResults.gamma_cat", "GammaResults.gamma_k"]
RNG_MODULES = {"pygamma_agreement.sampler", "pygamma_agreement.cst"}     # who may draw from numpy's global RNG
SEED_FUNCS = {"pygamma_cmd"}                                               # who may seed it


def submit_sites(ctx: Ctx):
    p = prog(ctx)
    out = {}
    for cs in p.all_calls():
        if cs.submit:
            out.setdefault(cs.caller.qualname, []).append(cs)
    return out


def worker_entries(ctx: Ctx) -> Dict[str, FuncInfo]:
    ent = {}
    for qn, sites in submit_sites(ctx).items():
        for cs in sites:
            for t in cs.targets:
                ent[t.qualname] = t
    return ent


def pool_kind_obligation(ctx: Ctx, rule: str, qns):
    """the pool the jobs are handed to is a *thread* pool (assumption "ThreadPoolExecutor/Future semantics": workers share the submitting thread's
    memory - one numpy generator, the job's arguments and results are the very objects).  Another kind of executor is not judged."""
    M = ctx.model
    for qn in qns:
        f = M.functions.get(qn)
        for w in ([x for x in walk_no_nested(f.node) if isinstance(x, ast.With)] if f is not None else []):
            for it in w.items:
                c = it.context_expr
                if isinstance(c, ast.Call) and ("Executor" in norm(c.func) or norm(c.func).split(".")[-1] in ("Pool", "ThreadPool")):
                    if norm(c.func).split(".")[-1] == "ThreadPoolExecutor":
                        ctx.ok(rule, f, c, "the jobs run in a thread pool", key=f"pool-kind:{qn}")
                    else:
                        ctx.undecided(rule, f, c, f"{qn} hands its jobs to `{norm(c.func)}`, not to a ThreadPoolExecutor: the rules assume workers that share the "
                                      f"submitting thread's memory (one numpy generator, arguments and results passed by reference) (not a verdict)", key=f"pool-kind:{qn}")


def run(ctx: Ctx):
    M, p = ctx.model, prog(ctx)
    ctx.clauses += [
        "R-C06-1 no numpy/stdlib RNG call is reachable (call graph incl. property getters and dunder methods) from any callable handed to Executor.submit",
        "R-C06-2 every argument of a submit is an eagerly evaluated value (the sample is a @property in every sampler subclass, never a lambda / bound method / generator)",
        "R-C06-3 futures are consumed by iterating the ordered list of futures and calling .result(); no as_completed / callbacks",
        "R-C06-4 worker-reachable code has no global write and no write/mutator call rooted at an argument of the job",
        "R-C06-5 numpy RNG draws only in sampler.py / cst.py, np.random.seed only in the CLI, nothing reachable from a dissimilarity constructor draws from numpy's RNG",
        "R-C06-6 no loop or comprehension reachable from compute_gamma / gamma_cat / gamma_k iterates a builtin set (hash order) unless it only feeds an error message",
        "R-C06-7 every write of compute_gamma to an object that outlives the call happens before the pool is started; the samplers hold the continuum itself, "
        "not a snapshot taken before that write (a repetition must see the state this call recorded)",
        "R-C06-8 the machine's core count (os.cpu_count and friends) only sizes the worker pool: nothing derived from it reaches the computation",
    ]
    ctx.not_decided += ["determinism of the numba kernels and of the MIP solvers as functions of their inputs (trusted)"]
    ctx.assumptions += ["Python evaluates call arguments in the calling thread before the call",
                        "ThreadPoolExecutor/Future semantics", "CBC/GLPK and numba kernels are deterministic"]

    check_sampler_init(ctx, "R-C06-7")
    sites = submit_sites(ctx)
    for qn in POOL_FUNCS:
        f = ctx.fn(qn, "R-C06-1")
        ctx.require(sites.get(qn), "R-C06-1", f"no Executor.submit site found in {qn} (anchor vanished)")
    pool_kind_obligation(ctx, "R-C06-1", POOL_FUNCS)
    entries = worker_entries(ctx)
    ctx.require(entries, "R-C06-1", "no worker entry point found")
    ctx.notes["worker_entry_points"] = sorted(entries)
    ctx.notes["submit_sites"] = {k: len(v) for k, v in sites.items()}

    # ---------------- R-C06-1 / R-C06-4 over everything reachable from the workers
    reach = p.reachable(sorted(entries))
    ctx.notes["worker_reachable_functions"] = len(reach)
    for qn, path in sorted(reach.items()):
        f = M.functions.get(qn)
        if f is None:
            continue
        ctx.functions_analysed.add(qn)
        bad = [cs for cs in p.all_calls(f) if cs.external and (cs.external.startswith("numpy.random.") or
                                                                 cs.external.startswith("random."))]
        if bad:
            for cs in bad:
                ctx.bad("R-C06-1", f, cs.node, f"{cs.external} is reachable from a worker thread via {' -> '.join(path)}",
                        key=f"{cs.external}")
        else:
            ctx.ok("R-C06-1", f, None, f"no RNG call; reached via {' -> '.join(path[-3:])}", construct="(function body)",
                   key="norng")
        for fl in p.flows_of(f):
            for gw in fl.global_writes:
                ctx.bad("R-C06-4", f, gw, f"write to a module global in worker-reachable code ({' -> '.join(path)})")
            for mu in fl.mutations:
                if mu.av.kind == "global" and not mu.via:
                    ctx.bad("R-C06-4", f, mu.node, f"{mu.how} on the module-level object {mu.av} in worker-reachable code ({' -> '.join(path)}): "
                            f"shared between the jobs, order of the updates depends on the schedule", key=f"global:{mu.av}|{mu.how}")
    for qn, ent in sorted(entries.items()):
        fl = p.flow(ent)
        shared = [m for m in fl.mutations if m.av.kind == "param"]
        if shared:
            for m in shared:
                ctx.bad("R-C06-4", ent, m.node, f"worker job writes to its shared argument: {m.how} on {m.av}"
                        f" via {' -> '.join(m.via) or 'direct'}", key=f"{m.av}|{m.how}")
        else:
            ctx.ok("R-C06-4", ent, None, "no write or mutator call rooted at an argument of the job "
                   f"({len(fl.mutations)} effects, all on objects allocated inside the job)", construct="(effects of the job)")

    # ---------------- R-C06-2 eager arguments
    n_prop_args = 0
    for qn, lst in sorted(sites.items()):
        f = M.functions[qn]
        fl = p.flow(f)
        for cs in lst:
            for a in cs.arg_nodes:
                t = fl.type_at(a)
                vals = fl.vals_at(a)
                why = None
                if isinstance(a, ast.Lambda) or (t is not None and t.name in ("Callable", "boundmethod")) or \
                        any(v.kind == "func" for v in vals):
                    why = "a callable travels to the worker: it would be evaluated in the worker thread"
                elif isinstance(a, ast.GeneratorExp) or (t is not None and t.name == "Iterable" and isinstance(a, (ast.Call, ast.GeneratorExp))):
                    why = "a lazy iterable travels to the worker"
                elif isinstance(a, ast.Call) and dotted(a.func) in ("partial", "functools.partial"):
                    why = "functools.partial defers the evaluation to the worker"
                if why:
                    ctx.bad("R-C06-2", f, a, why)
                    continue
                if isinstance(a, ast.Attribute):
                    rt = fl.type_at(a.value)
                    if rt is not None and rt.name in M.classes and M.dispatch(rt.name, a.attr, getter=True):
                        klasses = [M.classes[rt.name]] + M.subclasses.get(rt.name, [])
                        notprop = [c.name for c in klasses if M.find_getter(c, a.attr) is None]
                        if notprop:
                            ctx.bad("R-C06-2", f, a, f"'{a.attr}' is not a @property in {notprop}: there the bound method "
                                    f"(not a sampled continuum) would be passed and called by the worker")
                        else:
                            n_prop_args += 1
                            ctx.ok("R-C06-2", f, a, f"@property in all of {[c.name for c in klasses]}: drawn in the submitting thread; "
                                   f"inferred type {t}")
                        continue
                ctx.ok("R-C06-2", f, a, f"plain value of type {t}")
    if n_prop_args < 1:
        ctx.undecided("R-C06-2", M.functions["Continuum.compute_gamma"], None,
                      "no sample drawn through a sampler property in a submit argument (anchor vanished)", key="floor")

    # ---------------- R-C06-3 ordered collection
    for qn in sorted(sites):
        f = M.functions[qn]
        fl = p.flow(f)
        for cs in p.all_calls(f):
            if cs.external in ("concurrent.futures.as_completed", "concurrent.futures.wait") or \
                    cs.method in ("add_done_callback", "as_completed"):
                ctx.bad("R-C06-3", f, cs.node, "results taken in completion order / by callback: order depends on the schedule")
        for n in walk_no_nested(f.node):
            if isinstance(n, ast.Call) and isinstance(n.func, ast.Attribute) and n.func.attr == "result":
                rt = fl.type_at(n.func.value)
                if rt is None or rt.name != "Future":
                    continue
                _check_result_order(ctx, f, fl, n)
    ctx.floor("R-C06-3", 3, ".result() consumption sites")

    # ---------------- R-C06-5 who may draw
    for f in M.all_functions(include_notebook=True):
        for cs in ext_calls(p, f, "numpy.random."):
            if cs.caller is not f:
                continue
            if cs.external == "numpy.random.seed":
                ctx.check(f.name in SEED_FUNCS and f.module.name.endswith("cli_apps"), "R-C06-5", f, cs.node,
                          "np.random.seed only in the command line entry point", key="seed")
            else:
                ctx.check(f.module.name in RNG_MODULES, "R-C06-5", f, cs.node,
                          f"{cs.external}: numpy RNG draws are confined to the sampler and the corpus shuffling tool",
                          key=cs.external)
    # the stream a run is reproducible through is numpy's global one (`np.random.seed` is what the command line and the tests seed): a draw from the
    # standard library's `random` in the samplers / the shuffling tool is a second generator that seeding numpy does not reach
    for f in M.all_functions(include_notebook=False):
        if f.module.name not in RNG_MODULES:
            continue
        for cs in ext_calls(p, f, "random."):
            if cs.caller is not f or (cs.external or "").startswith("random.seed"):
                continue
            ctx.bad("R-C06-5", f, cs.node, f"{cs.external} draws from the standard library's generator inside {f.qualname}: np.random.seed (the only seeding the command line "
                    f"and the tests do) does not fix it, so two runs with the same seed draw different samples", key="stdlib-" + (cs.external or ""))
    dis_inits = [c.methods["__init__"].qualname for c in M.classes.values()
                 if M.is_subclass(c.name, "AbstractDissimilarity") and "__init__" in c.methods]
    ctx.require(dis_inits, "R-C06-5", "no dissimilarity constructor found")
    for qn, path in sorted(p.reachable(dis_inits).items()):
        f = M.functions.get(qn)
        if f is None:
            continue
        bad = ext_calls(p, f, "numpy.random.")
        for cs in bad:
            ctx.bad("R-C06-5", f, cs.node, f"constructing a dissimilarity consumes numpy's global RNG ({' -> '.join(path)}): "
                    f"a dissimilarity built between seeding and computing shifts the stream", key="ctor-" + (cs.external or ""))
        if not bad and f.name == "check_if_dissim":
            ctx.ok("R-C06-5", f, None, "self-check of a dissimilarity draws from the stdlib RNG only", construct="(function body)")

    # ---------------- R-C06-6 hash-order independence
    roots = POOL_FUNCS + [g.qualname for g in M.classes["GammaResults"].getters.values()]
    for qn, path in sorted(p.reachable(roots).items()):
        f = M.functions.get(qn)
        if f is None or isinstance(f.node, ast.Lambda):
            continue
        fls = p.flows_of(f)
        if not fls:
            continue
        fl = fls[0]
        for n in walk_no_nested(f.node):
            iters = []
            if isinstance(n, ast.For):
                iters.append(n.iter)
            elif isinstance(n, (ast.ListComp, ast.GeneratorExp, ast.DictComp, ast.SetComp)):
                iters += [g.iter for g in n.generators]
            for it in iters:
                t = fl.type_at(it)
                if t is not None and t.name in ("set", "frozenset"):
                    if _only_feeds_raise(f, n):
                        ctx.ok("R-C06-6", f, it, "set iterated only to build the text of an exception")
                    else:
                        ctx.bad("R-C06-6", f, it, "iteration over a builtin set: order depends on PYTHONHASHSEED "
                                f"(reached via {' -> '.join(path[-3:])})")
    # other run-dependent sources: object identity / string hashes / clocks / OS entropy must not reach the computation
    NONDET = ("builtins.id", "builtins.hash", "time.", "os.urandom", "uuid.", "secrets.", "os.getpid", "datetime.")
    for qn, path in sorted(p.reachable(roots).items()):
        f = M.functions.get(qn)
        if f is None:
            continue
        nd_calls = [cs for cs in p.all_calls(f) if cs.external and any(cs.external == n or (n.endswith(".") and cs.external.startswith(n)) for n in NONDET)]
        if not nd_calls or isinstance(f.node, ast.Lambda):
            continue
        # a clock / address / hash that is only reported (a duration in a log line) does not reach the computation: follow the value through the
        # locals it is assigned to; every use must be an argument of a logging / warning / print call or another such local
        nd_ids = {id(cs.node) for cs in nd_calls}
        report_args = {id(x) for c in walk_no_nested(f.node) if isinstance(c, ast.Call) and (norm(c.func).split(".")[0] in ("logging", "logger", "log", "warnings", "LOGGER", "_logger") or
                                                                                             norm(c.func) == "print") for a in list(c.args) + [k.value for k in c.keywords] for x in ast.walk(a)}
        tainted: set = set()
        changed = True
        while changed:
            changed = False
            for st in walk_no_nested(f.node):
                if isinstance(st, (ast.Assign, ast.AugAssign)) and all(isinstance(t, ast.Name) for t in (st.targets if isinstance(st, ast.Assign) else [st.target])):
                    if any(id(x) in nd_ids or (isinstance(x, ast.Name) and x.id in tainted and isinstance(x.ctx, ast.Load)) for x in ast.walk(st.value)):
                        for t in (st.targets if isinstance(st, ast.Assign) else [st.target]):
                            if t.id not in tainted:
                                tainted.add(t.id)
                                changed = True
        local_defs = {id(x) for st in walk_no_nested(f.node) if isinstance(st, (ast.Assign, ast.AugAssign)) and
                      all(isinstance(t, ast.Name) for t in (st.targets if isinstance(st, ast.Assign) else [st.target])) for x in ast.walk(st.value)}
        params_or_captured = tainted & (set(f.params) | {n_ for g in f.nested for n_ in [x.id for x in ast.walk(g.node) if isinstance(x, ast.Name)]})
        escapes = [x for x in walk_no_nested(f.node) if ((isinstance(x, ast.Name) and x.id in tainted and isinstance(x.ctx, ast.Load)) or id(x) in nd_ids) and
                   id(x) not in report_args and id(x) not in local_defs]
        for cs in nd_calls:
            ok_ = not escapes and not params_or_captured
            ctx.check(ok_, "R-C06-6", f, cs.node, f"{cs.external}() is only reported (log / warning / print arguments), it does not reach the computation",
                      bad_detail=f"{cs.external} is reachable from a gamma computation ({' -> '.join(path[-3:])}): its value differs between runs / processes "
                                 f"(object addresses, PYTHONHASHSEED, clock)" + (f" and is used at line {getattr(escapes[0], 'lineno', '?')} outside a report" if escapes else ""),
                      key=f"nondet:{cs.external}")
    ctx.ok("R-C06-6", None, None, f"{len(p.reachable(roots))} reachable functions swept for set iteration",
           construct="(sweep)")
    # the machine's core count may size the pool and nothing else: a value derived from it that reaches the computation (batch sizes,
    # grouping of a floating-point sum, chunking of the samples) makes the result depend on the number of workers
    MACHINE = ("os.cpu_count", "multiprocessing.cpu_count", "os.sched_getaffinity", "os.process_cpu_count", "psutil.cpu_count")
    n_machine = 0
    for qn, path in sorted(p.reachable(roots).items()):
        f = M.functions.get(qn)
        if f is None or isinstance(f.node, ast.Lambda):
            continue
        pools = [c for c in walk_no_nested(f.node) if isinstance(c, ast.Call) and norm(c.func).split(".")[-1] in ("ThreadPoolExecutor", "ProcessPoolExecutor", "Pool")]

        def sizes_pool_only(node) -> bool:
            return any(node is x for c in pools for a in list(c.args) + [k.value for k in c.keywords] for x in ast.walk(a))
        for cs in p.all_calls(f):
            if not (cs.external and cs.external in MACHINE):
                continue
            n_machine += 1
            ok = sizes_pool_only(cs.node)
            if not ok:
                # through a local used for nothing but sizing the pool
                for st in walk_no_nested(f.node):
                    if isinstance(st, ast.Assign) and len(st.targets) == 1 and isinstance(st.targets[0], ast.Name) and any(cs.node is x for x in ast.walk(st.value)):
                        nm = st.targets[0].id
                        loads = [x for x in walk_no_nested(f.node) if isinstance(x, ast.Name) and x.id == nm and isinstance(x.ctx, ast.Load)]
                        ok = bool(loads) and all(sizes_pool_only(x) for x in loads) and len(stores_to(f.node, nm)) == 1
            ctx.check(ok, "R-C06-8", f, cs.node, f"{cs.external}() only sizes the worker pool",
                      bad_detail=f"{cs.external}() is used for something else than the size of the worker pool (reached via {' -> '.join(path[-3:])}): "
                                 f"whatever is derived from it (batch boundaries, order of a floating-point accumulation) makes the result depend on the "
                                 f"number of workers", key=f"machine:{qn}")
    # the pool remembers the size it was given: reading it back (`pool._max_workers`, `pool._processes`) is reading the core count again,
    # unless every pool of the package is created with a literal size
    POOL_SIZE_ATTRS = ("_max_workers", "_processes")
    literal_pools = True
    for g in M.functions.values():
        if isinstance(g.node, ast.Lambda):
            continue
        for c in walk_no_nested(g.node):
            if isinstance(c, ast.Call) and norm(c.func).split(".")[-1] in ("ThreadPoolExecutor", "ProcessPoolExecutor", "Pool"):
                size = (c.args[0] if c.args else None) or next((k.value for k in c.keywords if k.arg in ("max_workers", "processes")), None)
                if not (isinstance(size, ast.Constant) and isinstance(size.value, int) and not isinstance(size.value, bool)):
                    literal_pools = False
    for qn, path in sorted(p.reachable(roots).items()):
        f = M.functions.get(qn)
        if f is None or isinstance(f.node, ast.Lambda):
            continue
        in_logging = {id(x) for c in walk_no_nested(f.node) if isinstance(c, ast.Call) and norm(c.func).split(".")[0] in ("logging", "logger", "log", "warnings")
                      for x in ast.walk(c)}
        for x in walk_no_nested(f.node):
            if isinstance(x, ast.Attribute) and x.attr in POOL_SIZE_ATTRS and isinstance(x.ctx, ast.Load):
                n_machine += 1
                ctx.check(literal_pools or id(x) in in_logging, "R-C06-8", f, x, f"`{norm(x)}` is only reported, or every pool has a literal size",
                          bad_detail=f"`{norm(x)}` is the size the worker pool was given, i.e. the machine's core count (reached via {' -> '.join(path[-3:])}): whatever is "
                                     f"derived from it (batch boundaries, grouping of a floating-point mean) makes the result depend on the number of workers",
                          key=f"machine:{qn}:{x.attr}")
    ctx.ok("R-C06-8", None, None, f"{n_machine} use(s) of the machine's core count in code reachable from a gamma computation, all sizing a pool",
           construct="(sweep)")

    # ---------------- R-C06-7 persistent writes precede the pool
    f = ctx.fn("Continuum.compute_gamma", "R-C06-7")
    fl = p.flow(f)
    withs = [i for i, s in enumerate(f.node.body) if isinstance(s, ast.With) and
             any("Executor" in norm(it.context_expr) for it in s.items)]
    ctx.require(withs, "R-C06-7", "executor `with` block not found at the top level of compute_gamma")
    wi = withs[0]
    persistent = [m for m in fl.mutations if m.av.kind == "param"]
    for m in persistent:
        idx = top_level_index(f.node, m.node)
        ctx.check(idx is not None and idx < wi, "R-C06-7", f, m.node,
                  f"{m.how} on {m.av} (via {' -> '.join(m.via) or 'direct'}) happens before the pool starts",
                  bad_detail=f"{m.how} on {m.av}: state that outlives the call is written while/after jobs run",
                  key=f"{m.av}|{m.how}")
    ctx.floor("R-C06-7", 1, "persistent writes of compute_gamma (sampler initialisation)")


def _bound_futures(f: FuncInfo, fl, name: str):
    """how a local holding futures is defined: 'single' | 'ordered' | 'unordered' | None"""
    kinds = set()
    for v in assigned_value(f.node, name):
        if isinstance(v, ast.ListComp):
            kinds.add("ordered")
        elif isinstance(v, (ast.SetComp, ast.DictComp, ast.Set, ast.Dict)) or \
                (isinstance(v, ast.Call) and dotted(v.func) in ("set", "frozenset", "dict")):
            kinds.add("unordered")
        elif isinstance(v, ast.List):
            kinds.add("ordered")
        elif isinstance(v, ast.Call) and isinstance(v.func, ast.Attribute) and v.func.attr == "submit":
            kinds.add("single")
        elif isinstance(v, ast.Call) and dotted(v.func) in ("list", "sorted", "tuple"):
            kinds.add("ordered")
        else:
            kinds.add("?")
    return kinds


def _check_result_order(ctx: Ctx, f: FuncInfo, fl, call: ast.Call):
    recv = call.func.value
    if not isinstance(recv, ast.Name):
        ctx.undecided("R-C06-3", f, call, "receiver of .result() is not a simple name")
        return
    # loop variable?
    loops = enclosing(f.node, call, (ast.For, ast.ListComp, ast.GeneratorExp, ast.SetComp, ast.DictComp))
    for lp in reversed(loops):
        gens = [(lp.target, lp.iter)] if isinstance(lp, ast.For) else [(g.target, g.iter) for g in lp.generators]
        for tg, it in gens:
            if recv.id in {n.id for n in ast.walk(tg) if isinstance(n, ast.Name)}:
                src = it
                if isinstance(src, ast.Call) and dotted(src.func) == "enumerate" and src.args:
                    src = src.args[0]
                if isinstance(src, ast.Call) and dotted(src.func) in ("reversed", "sorted", "list", "tuple") and src.args:
                    src = src.args[0]
                if isinstance(lp, (ast.SetComp, ast.DictComp)):
                    ctx.bad("R-C06-3", f, call, "results gathered into an unordered container")
                    return
                if isinstance(src, ast.Name):
                    kinds = _bound_futures(f, fl, src.id)
                    if kinds <= {"ordered"}:
                        ctx.ok("R-C06-3", f, call, f"futures of `{src.id}` (a list built in submission order) consumed in list order")
                    elif "unordered" in kinds:
                        ctx.bad("R-C06-3", f, call, f"futures kept in an unordered container `{src.id}`: consumption order varies")
                    else:
                        ctx.undecided("R-C06-3", f, call, f"cannot classify the container `{src.id}` of futures")
                    return
                ctx.undecided("R-C06-3", f, call, "futures iterated from an expression that is not a local list")
                return
    kinds = _bound_futures(f, fl, recv.id)
    if kinds <= {"single"}:
        ctx.ok("R-C06-3", f, call, f"single future `{recv.id}` awaited directly")
    else:
        ctx.undecided("R-C06-3", f, call, f"cannot classify future `{recv.id}`")


def _only_feeds_raise(f: FuncInfo, loop: ast.AST) -> bool:
    """the loop/comprehension is inside a raise, or defines a local that is only used inside raise statements"""
    if enclosing(f.node, loop, (ast.Raise,)):
        return True
    assigns = enclosing(f.node, loop, (ast.Assign,))
    if not assigns:
        return False
    a = assigns[-1]
    names = [t.id for t in a.targets if isinstance(t, ast.Name)]
    if len(names) != len(a.targets):
        return False
    for nm in names:
        for n in walk_no_nested(f.node):
            if isinstance(n, ast.Name) and n.id == nm and isinstance(n.ctx, ast.Load):
                if not enclosing(f.node, n, (ast.Raise,)):
                    # allowed: truth test `if name:` guarding a raise
                    ifs = enclosing(f.node, n, (ast.If,))
                    if ifs and any(n is x for x in ast.walk(ifs[-1].test)) and \
                            all(isinstance(s, ast.Raise) or _only_feeds_raise_stmt(f, s) for s in ifs[-1].body):
                        continue
                    return False
    return True


def _only_feeds_raise_stmt(f: FuncInfo, s: ast.stmt) -> bool:
    if isinstance(s, ast.Raise):
        return True
    if isinstance(s, ast.Assign):
        for sub in ast.walk(s.value):
            if isinstance(sub, (ast.GeneratorExp, ast.ListComp, ast.SetComp)):
                return _only_feeds_raise(f, sub)
        return True
    return False
