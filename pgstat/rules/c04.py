"""C04 - built-in dissimilarities compute their documented formula in both forms (DESIGN 4/C04)."""
from __future__ import annotations

import ast
from typing import Dict, List, Optional, Set, Tuple

from .. import algebra as A
from ..algebra import Rat, Unsupported
from ..cfg import CFG, EXIT
from ..core import Ctx
from ..flow import AV
from ..model import AnalysisError, ClassInfo, FuncInfo, dotted, kwarg, norm, walk_no_nested
from .common import assigned_value, bound_args, conditions_at, enclosing, expand_locals, flat_subscript, pargs, pnorm, prog, resolve_local, source_order, view_env
from .kernels import (SharedKernel, concrete_dissimilarities, extract_d, extract_d_mat, identify, spec_formula, swap12)

CAPTURED = {"delta_empty", "_matrix", "alpha", "beta", "positional_dissim", "categorical_dissim"}
NARROW_CASTS = {"np.int8", "np.int16", "np.uint8", "np.uint16", "numpy.int8", "numpy.int16"}


def array_layout(ctx: Ctx, rule: str) -> None:
    """field layout of the array forms agrees with the slot map used for the kernels (0=start 1=end 2=duration 3=category)"""
    M = ctx.model
    from .nbk import check_index_not_sentinel
    check_index_not_sentinel(ctx, rule)
    want = {0: "segment.start", 1: "segment.end", 2: "segment.duration"}
    for qn, arr_kind in (("AbstractDissimilarity._build_arrays_continuum", 2), ("AbstractDissimilarity._build_arrays_alignment", 3)):
        f = ctx.fn(qn, rule)
        _builder_rebuilds(ctx, rule, f, qn)
        got: Dict[int, ast.AST] = {}
        venv = view_env(f.node)
        for n in walk_no_nested(f.node):
            if isinstance(n, ast.Assign) and len(n.targets) == 1 and isinstance(n.targets[0], ast.Subscript):
                # arr[i][k] = v  /  arr[i, a, k] = v  /  row = arr[i]; row[k] = v  /  for row, unit in zip(arr, units): row[k] = v
                fl = flat_subscript(n.targets[0], venv)
                if fl is not None and len(fl[1]) == arr_kind and fl[1][-1].isdigit():
                    got[int(fl[1][-1])] = n
        missing = [k for k in (0, 1, 2, 3) if k not in got]
        if missing:
            # the rows are filled some other way (whole rows, columns, a helper that hands back an array): nothing to compare field by field
            ctx.undecided(rule, f, None, f"{qn}: no store into field(s) {missing} of a row was found: the rows are not filled field by field (not a verdict)",
                          construct="field layout", key="layout-shape")
            continue
        for k in (0, 1, 2):
            n = got.get(k)
            v = expand_locals(f.node, n.value) if n is not None else None
            ok = n is not None and isinstance(v, ast.Attribute) and norm(v).endswith("." + want[k])
            ctx.check(ok, rule, f, n, f"array field {k} holds unit.{want[k]}",
                      bad_detail=f"array field {k} does not hold unit.{want[k]}: the kernels read a different quantity than d()",
                      construct=f"field {k}", key=f"layout{k}")
        n = got.get(3)
        ok = n is not None and isinstance(n.value, ast.Call) and norm(n.value.func).split(".")[-1] in ("index", "_category_index") \
            and pargs(M, n.value) and norm(pargs(M, n.value)[-1]).endswith(".annotation")
        ctx.check(ok, rule, f, n, "array field 3 holds the index of the unit's label in the (sorted) category set",
                  bad_detail="array field 3 does not hold the category index", construct="field 3", key="layout3")
        if ok:
            # the index space: the dissimilarity's own category table when it has one (d() and the tables of the precomputed kernels are indexed
            # by it), the argument's category set otherwise
            call = n.value
            pa = pargs(M, call) or []
            space = pa[0] if norm(call.func).split(".")[-1] == "_category_index" and len(pa) == 2 else \
                (call.func.value if isinstance(call.func, ast.Attribute) and call.func.attr == "index" else None)
            sp = _index_space(f, space) if space is not None else None
            if sp is None:
                ctx.undecided(rule, f, n, "the category set the label index is taken in is not a recognised expression (not a verdict)", key="index-space", construct="index space")
            else:
                ctx.check(sp["table"] == f"{f.self_name}.categories", rule, f, n, "the label index is taken in the dissimilarity's own category table when it has one",
                          bad_detail=f"with a category table (self.categories is not None) the label index is taken in `{sp['table']}`, not in self.categories: the precomputed "
                                     f"tables and d() are indexed by the dissimilarity's own categories, so a continuum using a subset of them is looked up at shifted cells",
                          key="index-space", construct="index space")


def _builder_rebuilds(ctx: Ctx, rule: str, f, qn: str) -> None:
    """The array form is rebuilt from the units at every call: no `return` hands back a value that was read from (an attribute of) one of
    the builder's arguments instead of being built here, and the builder records nothing on the objects it is given.  A memo kept on the
    alignment / continuum is keyed by something; the units behind `n_tuple` setters, list stores and `add` / `remove` change without
    changing such a key, and then the disorder recomputed from the units is the disorder of older units (seeded/C03-r18-*)."""
    params = set(f.params)
    binds: Dict[str, List[ast.AST]] = {}
    for n in walk_no_nested(f.node):
        if isinstance(n, ast.Assign):
            for t in n.targets:
                if isinstance(t, ast.Name):
                    binds.setdefault(t.id, []).append(n.value)
        elif isinstance(n, (ast.AnnAssign, ast.NamedExpr)) and isinstance(n.target, ast.Name) and n.value is not None:
            binds.setdefault(n.target.id, []).append(n.value)

    def held(e: ast.AST, seen: Set[str], depth: int = 0) -> Optional[ast.AST]:
        """the read of a value kept on an argument that `e` may denote (through locals, subscripts, conditionals); a call builds a new value"""
        if depth > 8:
            return None
        if isinstance(e, ast.Name):
            if e.id in seen:
                return None
            seen = seen | {e.id}
            for v in binds.get(e.id, []):
                r = held(v, seen, depth + 1)
                if r is not None:
                    return r
            return None
        if isinstance(e, (ast.Subscript, ast.Starred)):
            return held(e.value, seen, depth + 1)
        if isinstance(e, ast.IfExp):
            return held(e.body, seen, depth + 1) or held(e.orelse, seen, depth + 1)
        if isinstance(e, ast.BoolOp):
            for v in e.values:
                r = held(v, seen, depth + 1)
                if r is not None:
                    return r
            return None
        if isinstance(e, ast.Attribute):
            root = e
            while isinstance(root, (ast.Attribute, ast.Subscript)):
                root = root.value
            return e if isinstance(root, ast.Name) and root.id in params else None
        if isinstance(e, ast.Call) and norm(e.func) == "getattr" and e.args:
            root = e.args[0]
            while isinstance(root, (ast.Attribute, ast.Subscript)):
                root = root.value
            return e if isinstance(root, ast.Name) and root.id in params else None
        if isinstance(e, ast.Call) and isinstance(e.func, ast.Attribute) and e.func.attr in ("get", "setdefault", "pop", "__getitem__", "__getattribute__"):
            # a lookup in a container that hangs off an argument (self.__dict__.setdefault(...), alignment._memo.get(key), vars(x).get(...))
            root = e.func.value
            while isinstance(root, (ast.Attribute, ast.Subscript)) or (isinstance(root, ast.Call) and norm(root.func) == "vars" and root.args):
                root = root.args[0] if isinstance(root, ast.Call) else root.value
            return e if isinstance(root, ast.Name) and root.id in params else None
        return None

    nret = 0
    for n in walk_no_nested(f.node):
        if isinstance(n, ast.Return) and n.value is not None:
            nret += 1
            src = held(n.value, set())
            ctx.check(src is None, rule, f, n, f"{qn}: every return hands back an array built in this call",
                      bad_detail=f"{qn} returns a value read from `{norm(src) if src is not None else ''}`, i.e. kept on one of its arguments from an earlier call, "
                                 f"instead of the array built from the units now: after the units change (n_tuple setter, list store, add / remove) the "
                                 f"recomputed disorder is that of the old units",
                      construct="rebuilt at every call", key="builder-rebuilds")
        stored = None
        if isinstance(n, (ast.Assign, ast.AugAssign, ast.AnnAssign)):
            for t in (n.targets if isinstance(n, ast.Assign) else [n.target]):
                if isinstance(t, ast.Attribute):
                    root = t.value
                    while isinstance(root, (ast.Attribute, ast.Subscript)):
                        root = root.value
                    if isinstance(root, ast.Name) and root.id in params:
                        stored = t
        elif isinstance(n, ast.Call) and norm(n.func) in ("setattr", "object.__setattr__") and n.args and isinstance(n.args[0], ast.Name) and n.args[0].id in params:
            stored = n
        if stored is not None:
            ctx.check(False, rule, f, n, "", bad_detail=f"{qn} records `{norm(stored)}` on an object it was given: the array form is a function of the units, "
                      f"nothing may be kept from one call to the next on the alignment / continuum / dissimilarity", construct="records nothing", key="builder-records")
    ctx.require(nret >= 1, rule, f"{qn}: no return statement found")


def _index_space(f, space: ast.AST):
    """{'table': text, 'none': text}: the expression `space` denotes when self.categories is not None / is None"""
    sn = f.self_name

    def pol(t: ast.AST):
        # True: test says self.categories is None; False: says it is not None; None: unrelated
        left = t.left if isinstance(t, ast.Compare) else None
        if isinstance(left, ast.Name):
            # a local that starts as self.categories (first, unconditional binding): the test is about the table
            firsts = [s for s in f.node.body if isinstance(s, ast.Assign) and len(s.targets) == 1 and norm(s.targets[0]) == left.id]
            if firsts and norm(firsts[0].value) == f"{sn}.categories":
                left = firsts[0].value
        if isinstance(t, ast.Compare) and len(t.ops) == 1 and left is not None and norm(left) == f"{sn}.categories" and isinstance(t.comparators[0], ast.Constant) and t.comparators[0].value is None:
            return True if isinstance(t.ops[0], ast.Is) else (False if isinstance(t.ops[0], ast.IsNot) else None)
        return None

    def ev(e: ast.AST, depth=0):
        if depth > 4:
            return None
        if isinstance(e, ast.IfExp) and pol(e.test) is not None:
            a, b = ev(e.body, depth + 1), ev(e.orelse, depth + 1)
            if a is None or b is None:
                return None
            return {"none": a["none"], "table": b["table"]} if pol(e.test) else {"none": b["none"], "table": a["table"]}
        if isinstance(e, ast.Name):
            out = {}
            sts = [s for s in walk_no_nested(f.node) if isinstance(s, ast.Assign) and len(s.targets) == 1 and isinstance(s.targets[0], ast.Name) and s.targets[0].id == e.id]
            if not sts:
                return None if e.id not in f.params else {"none": e.id, "table": e.id}
            order = source_order(f.node)
            for s in sorted(sts, key=lambda x: order[id(x)]):      # a later binding that applies replaces an earlier one
                conds = [(pol(t), p) for t, p in conditions_at(f.node, s) if pol(t) is not None]
                v = ev(s.value, depth + 1)
                if v is None:
                    return None
                for scen in ("none", "table"):
                    holds = all((p_ == c) if scen == "none" else (p_ != c) for p_, c in [(pp, cc) for pp, cc in conds])
                    if holds:
                        out[scen] = v[scen]
            return out if len(out) == 2 else None
        if isinstance(e, (ast.Attribute,)):
            return {"none": norm(e), "table": norm(e)}
        return None
    return ev(space)


def rule_forms(ctx: Ctx):
    M = ctx.model
    classes = concrete_dissimilarities(M)
    ctx.require(len(classes) >= 4, "R-C04-1", f"only {len(classes)} concrete dissimilarity classes found")
    ctx.notes["dissimilarity_classes"] = [c.name for c in classes]
    done_pairs = set()
    for c in classes:
        cd, d = M.find_method(c, "compile_d_mat"), M.find_method(c, "d")
        pair = (cd.qualname, d.qualname)
        if pair in done_pairs:
            ctx.ok("R-C04-1", d, None, f"{c.name} inherits both forms ({cd.qualname}, {d.qualname}) already compared",
                   construct=f"{c.name} (inherited)", key=f"inherit:{c.name}")
            continue
        done_pairs.add(pair)
        try:
            km = extract_d_mat(M, c)
            kd = extract_d(M, c)
        except SharedKernel as e:
            ctx.bad("R-C04-1", cd, None, f"{c.name}: {e}; d reads the instance's own values", construct=f"{c.name}: d_mat vs d", key=f"sibling:{c.name}")
            continue
        except Unsupported as e:
            ctx.undecided("R-C04-1", cd, None, f"{c.name}: formula extraction failed: {e}", construct=c.name, key=f"extract:{c.name}")
            continue
        ctx.functions_analysed.update({km.fn.qualname, kd.fn.qualname})
        ctx.check(km.form == kd.form, "R-C04-1", kd.fn, None,
                  f"{c.name}: compiled form == unit-to-unit form == {kd.form}",
                  bad_detail=f"{c.name}: the two forms differ: d_mat = {km.form}   but   d = {kd.form}",
                  construct=f"{c.name}: d_mat vs d", key=f"sibling:{c.name}")
        # a special case of compile_d_mat (`if alpha == 0: return cat`) is the compiled form under that condition: d() under the same condition
        for s_, cond, fld, const, sform in getattr(km, "special", []):
            import fractions as _fr
            names = {repr(fld)}
            at = A.subst(kd.form, lambda v, _n=names, _c=const: Rat.const(_fr.Fraction(str(_c))) if v in _n else None)
            ctx.check(at == sform, "R-C04-1", cd, s_, f"{c.name}: under `{cond}` the compiled form {sform} is what d() computes there",
                      bad_detail=f"{c.name}: when `{cond}`, compile_d_mat hands out {sform}   but   d = {at}: a weight of the combination never reaches the kernel "
                                 f"the alignments are built with", construct=f"{c.name}: d_mat vs d when {cond}", key=f"sibling-special:{c.name}:{cond}")
        sp = spec_formula(M, c)
        if sp is not None:
            txt, want = sp
            for k in (km, kd):
                ctx.check(k.form == want, "R-C04-2", k.fn, None, f"{c.name}.{k.kind} == documented formula {txt}",
                          bad_detail=f"{c.name}.{k.kind} = {k.form}, documented formula {txt} = {want}",
                          construct=f"{c.name}.{k.kind} vs formula", key=f"formula:{c.name}.{k.kind}")
        else:
            ctx.note(f"{c.name}: no documented formula in the table; sibling agreement / symmetry only")
        for k in (km, kd):
            ctx.check(swap12(k.form) == k.form, "R-C04-3", k.fn, None, f"{c.name}.{k.kind} symmetric under unit1<->unit2",
                      bad_detail=f"{c.name}.{k.kind} is not symmetric: {k.form} vs swapped {swap12(k.form)}",
                      construct=f"{c.name}.{k.kind} symmetry", key=f"sym:{c.name}.{k.kind}")
            ctx.check(identify(k.form).is_zero(), "R-C04-3", k.fn, None, f"{c.name}.{k.kind} is 0 on identical units",
                      bad_detail=f"{c.name}.{k.kind} on identical units = {identify(k.form)}",
                      construct=f"{c.name}.{k.kind} identity", key=f"zero:{c.name}.{k.kind}")
        # R-C04-4 index width of casts applied to the category slot
        cat_casts = [(nm, r) for nm, r in km.casts if any(a == ("v", "C1") or a == ("v", "C2") for a in r.atoms())]
        for nm, r in cat_casts:
            ctx.check(nm not in NARROW_CASTS, "R-C04-4", km.fn, None,
                      f"category index cast with {nm}: wide enough for every index a float32 field can carry",
                      bad_detail=f"category index is cast with {nm}: indices above {127 if '8' in nm else 32767} wrap around, "
                                 f"so the compiled form reads another matrix cell than d()",
                      construct=f"{nm}({r})", key=f"cast:{c.name}:{nm}")
    ctx.floor("R-C04-4", 1, "casts of the category slot in a compiled kernel")


# ---------------------------------------------------------------------------------------------
# matrix constructors: symmetry, zero diagonal, index space
# ---------------------------------------------------------------------------------------------
def _matrix_ctor_calls(ctx: Ctx) -> List[Tuple[FuncInfo, ast.Call]]:
    M = ctx.model
    out = []
    for c in M.classes.values():
        if not M.is_subclass(c.name, "PrecomputedCategoricalDissimilarity") or c.name == "PrecomputedCategoricalDissimilarity":
            continue
        init = c.methods.get("__init__")
        if init is None:
            continue
        for n in walk_no_nested(init.node):
            if isinstance(n, ast.Call) and norm(n.func) == "super().__init__":
                parent = next(k for k in M.mro(c)[1:] if "__init__" in k.methods)
                out.append((init, n, parent))
    return out


def rule_matrix_builders(ctx: Ctx):
    M = ctx.model
    n_builders = 0
    for init, call, parent in _matrix_ctor_calls(ctx):
        if parent.name != "PrecomputedCategoricalDissimilarity":
            # delegating constructor (Levenshtein -> Lambda, Numerical -> Ordinal): positions must be aligned with labels
            if parent.name == "OrdinalCategoricalDissimilarity":
                pin = parent.methods["__init__"].params[1:]
                ba = bound_args(call, parent.methods["__init__"]) or {}
                lab = norm(ba[pin[0]]) if pin[0] in ba else None
                pos = resolve_local(init.node, ba[pin[1]]) if len(pin) > 1 and pin[1] in ba else None
                okp = pos is not None and isinstance(pos, ast.Call) and norm(pos.func) in ("np.array", "numpy.array") and \
                    norm(pos.args[0]) in (f"list({lab})", lab, f"[float({'x'}) for x in {lab}]")
                ctx.check(okp, "R-C04-5", init, call, "positions are derived element-wise from the labels (same order)",
                          bad_detail="positions handed to the ordinal dissimilarity are not aligned with the labels", key="numerical-align")
                # ... and stay so until they are handed over: nothing may update the positions array in place in between (a sort, a reversal, a
                # helper that does one on its argument), the labels keep their order
                if okp and len(pin) > 1 and pin[1] in ba and isinstance(ba[pin[1]], ast.Name):
                    pv_ = ba[pin[1]].id
                    fl_ = prog(ctx).flow(init)
                    upd = [m for m in fl_.mutations if m.av.kind == "fresh" and m.node is not call and
                           any(isinstance(x, ast.Name) and x.id == pv_ for x in ast.walk(m.node))]
                    ctx.check(not upd, "R-C04-5", init, upd[0].node if upd else call, "the positions are handed over as they were derived (not updated in place in between)",
                              bad_detail=f"`{norm(upd[0].node)[:70]}` updates the positions array `{pv_}` in place before it is handed to the ordinal dissimilarity, while the labels "
                                         f"keep the order they were given in: label k gets another label's position" if upd else "", key="numerical-align-stable")
            continue
        n_builders += 1
        pinit = parent.methods["__init__"]
        ba_ = bound_args(call, pinit) or {}
        args = [ba_[p_] for p_ in pinit.params[1:3] if p_ in ba_]        # (categories, matrix) by position or by keyword
        if len(args) < 2:
            ctx.undecided("R-C04-5", init, call, "super().__init__(categories, matrix, ...) expected")
            continue
        cats_e, mat_e = args[0], args[1]
        cats_def = resolve_local(init.node, cats_e)
        # the caller's own set kept as it is (on some path): the table is indexed by ranks in a set somebody else may still add to
        lab_params = set(init.params[1:])
        alias = None
        defs_ = assigned_value(init.node, cats_e.id) if isinstance(cats_e, ast.Name) and cats_e.id not in lab_params else [cats_e]
        for d_ in defs_:
            for br in ([d_.body, d_.orelse] if isinstance(d_, ast.IfExp) else [d_]):
                if isinstance(br, ast.Name) and br.id in lab_params:
                    alias = br
        if alias is not None:
            ctx.bad("R-C04-5", init, call, f"{init.qualname} keeps the caller's own label set `{alias.id}` (not a copy): the matrix is built for the ranks the labels have now; when the "
                    f"caller's set grows later (`continuum.categories` is the continuum's live set, `add` inserts into it), a label's rank - the cell d() and the arrays read - "
                    f"shifts while the matrix stays", key="categories-aliased")
            continue
        if not (isinstance(cats_def, ast.Call) and dotted(cats_def.func) == "SortedSet" and len(cats_def.args) == 1):
            ctx.undecided("R-C04-5", init, call, "categories handed to the precomputed dissimilarity are not SortedSet(labels)")
            continue
        labels = norm(cats_def.args[0])
        cats_name = cats_e.id if isinstance(cats_e, ast.Name) else None
        if not isinstance(mat_e, ast.Name):
            ctx.undecided("R-C04-5", init, call, "matrix argument is not a local array")
            continue
        mat = mat_e.id
        # index-space tags of loop variables
        tags: Dict[str, str] = {}
        perms: Dict[str, str] = {}
        for n in walk_no_nested(init.node):
            if isinstance(n, ast.Assign) and isinstance(n.targets[0], ast.Name) and isinstance(n.value, ast.Call) and \
                    norm(n.value.func) in ("np.argsort", "numpy.argsort") and n.value.args:
                perms[n.targets[0].id] = norm(n.value.args[0])

        def length_of(e: ast.AST) -> Optional[str]:
            e = resolve_local(init.node, e)
            if isinstance(e, ast.Call) and dotted(e.func) == "len" and e.args:
                return norm(e.args[0])
            return None
        for n in walk_no_nested(init.node):
            if isinstance(n, ast.For):
                it = n.iter
                if isinstance(it, ast.Name) and it.id in perms and isinstance(n.target, ast.Name):
                    tags[n.target.id] = "SUPPLIED"
                elif isinstance(it, ast.Call) and dotted(it.func) == "enumerate" and it.args and isinstance(it.args[0], ast.Name) \
                        and it.args[0].id in perms and isinstance(n.target, ast.Tuple) and len(n.target.elts) == 2:
                    tags[norm(n.target.elts[0])] = "SORTED"
                    tags[norm(n.target.elts[1])] = "SUPPLIED"
                elif isinstance(it, ast.Call) and dotted(it.func) == "enumerate" and it.args and isinstance(it.args[0], ast.Name) \
                        and isinstance(n.target, ast.Tuple) and len(n.target.elts) == 2 and isinstance(n.target.elts[0], ast.Name) and \
                        (it.args[0].id == cats_name or it.args[0].id in {labels} | {p for p in init.params[1:] if p not in ("delta_empty",)}) and len(it.args) == 1:
                    # position in the sorted category set / in a caller-supplied sequence
                    tags[n.target.elts[0].id] = "SORTED" if it.args[0].id == cats_name else "SUPPLIED"
                elif isinstance(it, ast.Call) and dotted(it.func) == "range" and isinstance(n.target, ast.Name):
                    bound = it.args[-1] if len(it.args) <= 2 else it.args[1]
                    if isinstance(bound, ast.Name) and bound.id in tags:
                        tags[n.target.id] = tags[bound.id]          # range(i): same space as i
                    else:
                        ln = length_of(bound)
                        if ln is not None and cats_name is not None and ln == cats_name:
                            tags[n.target.id] = "SORTED"
                        elif ln is not None:
                            tags[n.target.id] = "SUPPLIED"
        supplied_arrays = {labels} | {p for p in init.params[1:] if p not in ("delta_empty",)}
        # sinks
        writes: List[Tuple[ast.Assign, str, str]] = []
        bad = False
        for n in walk_no_nested(init.node):
            if isinstance(n, ast.Subscript) and isinstance(n.value, ast.Name):
                base = n.value.id
                idx = n.slice.elts if isinstance(n.slice, ast.Tuple) else [n.slice]
                need = None
                if base == mat:
                    need = "SORTED"
                elif cats_name is not None and base == cats_name:
                    need = "SORTED"
                elif base in supplied_arrays:
                    need = "SUPPLIED"
                if need is None:
                    continue
                for ix in idx:
                    if isinstance(ix, ast.Name):
                        tg = tags.get(ix.id)
                        if tg is None:
                            ctx.undecided("R-C04-5", init, n, f"index `{ix.id}` has no inferred index space")
                            bad = True
                        elif tg != need:
                            bad = True
                            ctx.bad("R-C04-5", init, n, f"`{norm(n)}`: index `{ix.id}` is a {tg} position but `{base}` is indexed by "
                                    f"{need} position (matrix rows/columns follow the alphabetically sorted categories, "
                                    f"`{labels}`/positions follow the order supplied by the caller): wrong cell unless labels were passed sorted",
                                    key=f"space:{base}[{ix.id}]")
        if not bad:
            ctx.ok("R-C04-5", init, call, f"matrix and category accesses use sorted ranks, label/position accesses use supplied positions "
                   f"({len(tags)} index variables tagged: {tags})", key=f"space:{init.cls.name}")
        # symmetry + diagonal of what is written
        stores = [n for n in walk_no_nested(init.node) if isinstance(n, ast.Assign) and isinstance(n.targets[0], ast.Subscript)
                  and isinstance(n.targets[0].value, ast.Name) and n.targets[0].value.id == mat
                  and isinstance(n.targets[0].slice, ast.Tuple) and len(n.targets[0].slice.elts) == 2]
        if not stores:
            _vectorised_builder(ctx, init, call, labels, mat, cats_name)
            continue
        mdef = assigned_value(init.node, mat)
        zero_init = len(mdef) == 1 and isinstance(mdef[0], ast.Call) and norm(mdef[0].func) in ("np.zeros", "numpy.zeros")
        ctx.check(zero_init, "R-C04-3", init, mdef[0] if mdef else None, "matrix starts as zeros (diagonal stays 0 unless written)",
                  key=f"zeros:{init.cls.name}")
        cells = {(norm(s.targets[0].slice.elts[0]), norm(s.targets[0].slice.elts[1])): s for s in stores}
        sym_ok = True
        why = ""
        for (i, j), s in cells.items():
            if (j, i) in cells and (i, j) != (j, i):
                if norm(cells[(j, i)].value) != norm(s.value):
                    sym_ok, why = False, f"matrix[{i},{j}] and matrix[{j},{i}] receive different values"
            else:
                # single store over a full square: the expression itself must be symmetric and vanish on the diagonal
                v = norm(s.value)
                sup = {k for k, t in tags.items()}
                # find the supplied-space partners of the two sorted ranks
                import re
                pi = [k for k in tags if tags[k] == "SUPPLIED"]
                if len(pi) == 2:
                    a, b = pi
                    swapped = re.sub(rf"\b{a}\b", "\0", v)
                    swapped = re.sub(rf"\b{b}\b", a, swapped).replace("\0", b)
                    try:
                        ex = A.Extractor({}, subscript=lambda ex_, e_: A.Rat.var(norm(e_)))
                        r1 = ex.ev(s.value)
                        r2 = ex.ev(ast.parse(swapped, mode="eval").body)
                        same = ex.ev(ast.parse(re.sub(rf"\b{b}\b", a, v), mode="eval").body)
                        if not (r1 == r2):
                            sym_ok, why = False, f"`{v}` is not symmetric in ({a},{b})"
                        if not same.is_zero():
                            sym_ok, why = False, f"`{v}` does not vanish for {a} == {b}"
                    except Unsupported as e:
                        sym_ok, why = False, f"cannot decide symmetry of `{v}`: {e}"
                else:
                    sym_ok, why = False, f"only matrix[{i},{j}] is written (no mirrored store)"
        diag_written = any(i == j for (i, j) in cells)
        ctx.check(sym_ok and not diag_written, "R-C04-3", init, stores[0],
                  "matrix filled symmetrically (mirrored stores of one value, or one symmetric expression) with a zero diagonal",
                  bad_detail=f"matrix of {init.cls.name} may be asymmetric or non-zero on the diagonal: {why}",
                  key=f"matrix-sym:{init.cls.name}")
    ctx.require(n_builders >= 2, "R-C04-5", f"{n_builders} matrix-building constructors found (expected Lambda and Ordinal)")


class _Perm:
    """permutation array: position space `dom` -> value space `val`"""

    def __init__(self, dom, val):
        self.dom, self.val = dom, val


def _vectorised_builder(ctx: Ctx, init: FuncInfo, call: ast.Call, labels: str, mat: str, cats_name):
    """index-space inference on array axes for constructors that build the matrix with numpy fancy indexing.
    Spaces: SUPPLIED (order of the caller's labels / positions), SORTED (alphabetical rank), ANY (fresh zeros), B (broadcast axis)."""
    env: Dict[str, object] = {}
    for prm in init.params[1:]:
        if prm != "delta_empty":
            env[prm] = ("SUPPLIED",)
    problems: List[Tuple[ast.AST, str]] = []
    symmetric: Dict[str, bool] = {}

    def ix_args(e):
        if isinstance(e, ast.Call) and norm(e.func) in ("np.ix_", "numpy.ix_") and len(e.args) == 2:
            return e.args
        if isinstance(e, ast.Tuple) and len(e.elts) == 2 and all(isinstance(x, ast.Subscript) for x in e.elts):
            a, b = e.elts      # P[:, None], P[None, :]
            if norm(a.slice) == "(slice(None, None, None), None)" or norm(a) .endswith("[:, None]"):
                return [a.value, b.value]
        return None

    def axes(e: ast.AST):
        if isinstance(e, ast.Name):
            return env.get(e.id)
        if isinstance(e, ast.Call):
            fn = norm(e.func)
            if fn in ("np.asarray", "np.array", "numpy.array", "numpy.asarray", "np.abs", "np.absolute", "abs", "np.float32", "list") and e.args:
                return axes(e.args[0])
            if fn in ("np.arange", "numpy.arange") and e.args and isinstance(e.args[0], ast.Call) and dotted(e.args[0].func) == "len":
                return axes(e.args[0].args[0]) if axes(e.args[0].args[0]) else ("SUPPLIED",)
            if fn in ("np.argsort", "numpy.argsort") and e.args:
                a = axes(e.args[0])
                if isinstance(a, _Perm):
                    return _Perm(a.val, a.dom)          # argsort of a permutation is its inverse
                if a == ("SUPPLIED",):
                    return _Perm("SORTED", "SUPPLIED")   # r-th entry = supplied position of the r-th label in sorted order
                return None
            if fn in ("np.zeros", "numpy.zeros", "np.empty"):
                return ("ANY", "ANY")
            if fn in ("np.subtract.outer",) and len(e.args) == 2:
                a, b = axes(e.args[0]), axes(e.args[1])
                if a and b and len(a) == 1 and len(b) == 1:
                    return (a[0], b[0])
            return None
        if isinstance(e, ast.BinOp):
            a, b = axes(e.left), axes(e.right)
            if a is None or b is None or isinstance(a, _Perm) or isinstance(b, _Perm):
                return a if b is None else b if a is None else None
            if len(a) == len(b):
                out = []
                for x, y in zip(a, b):
                    if x == "B":
                        out.append(y)
                    elif y == "B" or x == y:
                        out.append(x)
                    else:
                        problems.append((e, f"operands of `{norm(e)}` are indexed in different spaces ({x} vs {y})"))
                        out.append(x)
                return tuple(out)
            return a if len(a) > len(b) else b
        if isinstance(e, ast.Subscript):
            t = norm(e.slice)
            base = axes(e.value)
            if isinstance(e.slice, ast.Tuple) and len(e.slice.elts) == 2 and isinstance(base, tuple) and len(base) == 1:
                parts = [norm(x) for x in e.slice.elts]
                if parts == [":", "None"] or (isinstance(e.slice.elts[0], ast.Slice) and isinstance(e.slice.elts[1], ast.Constant) and e.slice.elts[1].value is None):
                    return (base[0], "B")
                if isinstance(e.slice.elts[1], ast.Slice) and isinstance(e.slice.elts[0], ast.Constant) and e.slice.elts[0].value is None:
                    return ("B", base[0])
            ia = ix_args(e.slice)
            if ia is not None and isinstance(base, tuple) and len(base) == 2:
                P, Q = axes(ia[0]), axes(ia[1])
                if isinstance(P, _Perm) and isinstance(Q, _Perm):
                    for ax, perm in zip(base, (P, Q)):
                        if ax not in ("ANY", perm.val):
                            problems.append((e, f"gather `{norm(e)}`: the array is indexed by {ax} positions but the index array holds {perm.val} positions"))
                    return (P.dom, Q.dom)
            if isinstance(base, tuple) and isinstance(axes(e.slice), _Perm) and len(base) >= 1:
                P = axes(e.slice)
                if base[0] not in ("ANY", P.val):
                    problems.append((e, f"gather `{norm(e)}`: axis 0 is indexed by {base[0]} positions but the index array holds {P.val} positions"))
                return (P.dom,) + tuple(base[1:])
            if isinstance(e.slice, ast.Tuple) and len(e.slice.elts) == 2 and isinstance(e.slice.elts[0], ast.Slice) and isinstance(base, tuple) and len(base) == 2 \
                    and isinstance(axes(e.slice.elts[1]), _Perm):
                P = axes(e.slice.elts[1])
                if base[1] not in ("ANY", P.val):
                    problems.append((e, f"gather `{norm(e)}`: axis 1 is indexed by {base[1]} positions but the index array holds {P.val} positions"))
                return (base[0], P.dom)
            return None
        return None

    def outer_abs_difference(e: ast.AST) -> bool:
        """np.abs(X[:, None] - X[None, :]) for one 1-D array X: symmetric with a zero diagonal"""
        if isinstance(e, ast.Name):
            d = assigned_value(init.node, e.id)
            return len(d) == 1 and outer_abs_difference(d[0])
        if isinstance(e, ast.Subscript):
            return outer_abs_difference(e.value)        # a symmetric re-indexing of both axes keeps symmetry
        if isinstance(e, ast.Call) and norm(e.func) in ("np.abs", "np.absolute", "abs") and e.args and isinstance(e.args[0], ast.BinOp) \
                and isinstance(e.args[0].op, ast.Sub):
            l, r = e.args[0].left, e.args[0].right
            if isinstance(l, ast.Subscript) and isinstance(r, ast.Subscript) and norm(l.value) == norm(r.value):
                return {norm(l.slice), norm(r.slice)} == {"(slice(None, None, None), None)", "(None, slice(None, None, None))"} or \
                    {norm(l)[len(norm(l.value)):], norm(r)[len(norm(r.value)):]} == {"[:, None]", "[None, :]"}
        if isinstance(e, ast.Call) and norm(e.func) == "np.abs" and e.args and isinstance(e.args[0], ast.Call) and norm(e.args[0].func) == "np.subtract.outer":
            return norm(e.args[0].args[0]) == norm(e.args[0].args[1])
        return False

    value_expr = None
    for st in body_of(init):
        if isinstance(st, ast.Assign) and len(st.targets) == 1:
            tg = st.targets[0]
            if isinstance(tg, ast.Name):
                a = axes(st.value)
                if a is not None:
                    env[tg.id] = a
                rescale = isinstance(st.value, ast.BinOp) and isinstance(st.value.op, (ast.Div, ast.Mult)) and norm(st.value.left) == mat
                if tg.id == mat and not rescale and not (isinstance(st.value, ast.Call) and norm(st.value.func) in ("np.zeros", "np.empty")):
                    value_expr = st.value
            elif isinstance(tg, ast.Subscript) and isinstance(tg.value, ast.Name) and tg.value.id == mat:
                ia = ix_args(tg.slice)
                if ia is None:
                    ctx.undecided("R-C04-5", init, st, "store into the matrix with an index form that is not understood")
                    return
                P, Q = axes(ia[0]), axes(ia[1])
                B = axes(st.value)
                value_expr = st.value
                if not (isinstance(P, _Perm) and isinstance(Q, _Perm) and isinstance(B, tuple) and len(B) == 2):
                    ctx.undecided("R-C04-5", init, st, "cannot infer the index spaces of a scattered store")
                    return
                for k, (ax, perm) in enumerate(zip(B, (P, Q))):
                    if ax != perm.dom:
                        problems.append((st, f"scatter `{norm(st)[:90]}`: cell (a, b) of the right-hand side, indexed by {ax} positions, is written to row/column "
                                             f"index_array[a] although index_array is itself indexed by {perm.dom} rank: the inverse permutation is applied "
                                             f"(right only when the label order is an involution, e.g. already sorted or reversed)"))
                env[mat] = (P.val, Q.val)
    final = env.get(mat)
    if problems:
        for node, why in problems:
            ctx.bad("R-C04-5", init, node, why, key=f"vector-space:{norm(node)[:50]}")
    elif final in (("SORTED", "SORTED"),):
        ctx.ok("R-C04-5", init, call, "matrix axes are in sorted-rank space; label/position arrays are only indexed in supplied space", key=f"space:{init.cls.name}")
    else:
        ctx.bad("R-C04-5", init, call, f"the matrix handed over with SortedSet(labels) has axes in {final} space; alphabetical rank space is required "
                f"(its rows/columns are looked up by the index of a label in the sorted category set)", key=f"space:{init.cls.name}")
    if value_expr is not None and outer_abs_difference(value_expr):
        ctx.ok("R-C04-3", init, value_expr, "matrix values are |x_a - x_b| of one array: symmetric with a zero diagonal", key=f"matrix-sym:{init.cls.name}")
    else:
        ctx.undecided("R-C04-3", init, value_expr, "cannot decide symmetry / zero diagonal of the vectorised matrix expression", key=f"matrix-sym:{init.cls.name}")


def body_of(f: FuncInfo):
    return [s for s in f.node.body if not (isinstance(s, ast.Expr) and isinstance(s.value, ast.Constant))]


# ---------------------------------------------------------------------------------------------
# stale capture / one delta_empty
# ---------------------------------------------------------------------------------------------
def _recompile_nodes(f: FuncInfo, objname: str) -> List[ast.AST]:
    return [n for n in walk_no_nested(f.node) if isinstance(n, ast.Assign) and norm(n.targets[0]) == f"{objname}.d_mat"
            and norm(n.value) == f"{objname}.compile_d_mat()"]


def rule_stale_capture(ctx: Ctx):
    M, p = ctx.model, prog(ctx)
    n = 0
    for f in M.all_functions():
        if isinstance(f.node, ast.Lambda):
            continue
        fl = p.flow(f)
        if fl is None:
            continue
        cfg = None
        for m in fl.mutations:
            if m.via or not m.how.startswith("store ."):
                continue
            fld = m.how[7:]
            if fld not in CAPTURED:
                continue
            t = p.av_type(fl, m.av)
            if t is None or not M.is_subclass(t.name, "AbstractDissimilarity"):
                continue
            n += 1
            cfg = cfg or CFG(f.node)
            sn = f.self_name
            node = cfg.node_containing(m.node)
            tgt = m.node.targets[0] if isinstance(m.node, ast.Assign) else getattr(m.node, "target", None)
            objname = norm(tgt.value) if isinstance(tgt, ast.Attribute) else None
            is_self_init = f.name == "__init__" and m.av == AV(f"param:{sn}")
            compiles = [cfg.node_containing(x) for x in walk_no_nested(f.node)
                        if isinstance(x, ast.Call) and norm(x.func) in ("super().__init__",)]
            if is_self_init:
                # field must be set before the base constructor compiles the kernel
                after = [c for c in compiles if c is not None and node in cfg.reachable(c) and node != c]
                ctx.check(not after, "R-C04-6", f, m.node, f"self.{fld} is set before the kernel is compiled",
                          bad_detail=f"self.{fld} is assigned after the kernel was compiled by the base constructor: the compiled form keeps the old value",
                          key=f"init:{fld}")
                continue
            rec = [cfg.node_containing(x) for x in _recompile_nodes(f, objname)] if objname else []
            ok = bool(rec) and cfg.must_pass(EXIT, set(rec), src=node) and all(r != node for r in rec)
            ctx.check(ok, "R-C04-6", f, m.node,
                      f"{objname}.{fld} is changed on an already compiled dissimilarity and the kernel is recompiled on every path after it",
                      bad_detail=f"{objname}.{fld} is overwritten on an already constructed dissimilarity without recompiling its kernel: "
                                 f"d() uses the new value, the compiled d_mat the captured old one",
                      key=f"stale:{fld}")
    ctx.floor("R-C04-6", 4, "stores to kernel-captured fields")


def rule_one_delta(ctx: Ctx):
    M = ctx.model
    f = ctx.fn("CombinedCategoricalDissimilarity.__init__", "R-C04-7")
    ps = f.params
    ctx.require("delta_empty" in ps, "R-C04-7", "parameter delta_empty not found")
    comp_params = [p for p in ps if p.endswith("_dissim")]
    ctx.require(len(comp_params) == 2, "R-C04-7", f"component parameters: {comp_params}")
    for cp in comp_params:
        # default component is constructed with the combined's delta_empty
        dflt = None
        for n in walk_no_nested(f.node):
            if isinstance(n, ast.If) and norm(n.test) == f"{cp} is None":
                for s in n.body:
                    if isinstance(s, ast.Assign) and norm(s.targets[0]) == cp and isinstance(s.value, ast.Call):
                        dflt = (n, s)
        if dflt is None:
            ctx.undecided("R-C04-7", f, None, f"default construction of {cp} not found", construct=cp)
            continue
        n_if, s = dflt
        c = s.value
        cname = dotted(c.func)
        cls = M.classes.get(cname)
        okd = False
        if cls is not None:
            init = M.find_method(cls, "__init__")
            ips = init.params[1:]
            bound = {ips[i]: a for i, a in enumerate(c.args) if i < len(ips)}
            bound.update({k.arg: k.value for k in c.keywords})
            okd = "delta_empty" in bound and norm(bound["delta_empty"]) == "delta_empty"
        ctx.check(okd, "R-C04-7", f, s, f"default {cp} is constructed with the combined dissimilarity's delta_empty",
                  bad_detail=f"default {cp} = {norm(c)} is built with its own default delta_empty (1.0), not the combined's",
                  key=f"default:{cp}")
    # a supplied categorical component is brought to the combined's delta_empty (value stored derives from the parameter)
    cp = "cat_dissim"
    stores = [n for n in walk_no_nested(f.node) if isinstance(n, ast.Assign) and norm(n.targets[0]) == f"{cp}.delta_empty"]
    if not stores:
        ctx.bad("R-C04-7", f, None, "a supplied categorical component keeps its own delta_empty: combined = alpha*pos + beta*cat is no longer "
                "expressed with the one delta_empty given to the combined dissimilarity", construct=f"{cp}.delta_empty", key="supplied")
    for s in stores:
        okv = "delta_empty" in {x.id for x in ast.walk(s.value) if isinstance(x, ast.Name)}
        ifs = enclosing(f.node, s, (ast.If,))
        okg = True
        for i in ifs:
            t = norm(i.test)
            in_else = any(s is x for b in i.orelse for x in ast.walk(b))
            if t == f"{cp} is None" and in_else:
                continue
            if f"{cp}.delta_empty" in t and "delta_empty" in t and ("!=" in t):
                continue
            okg = False
        ctx.check(okv and okg, "R-C04-7", f, s, "a supplied categorical component receives the combined's delta_empty whenever it differs",
                  bad_detail="the re-parameterisation of the supplied categorical component is guarded by something else than "
                             "`is None` / `differs`, or stores another value", key="supplied")
    # role agreement of the stored fields
    for fld, par in (("alpha", "alpha"), ("beta", "beta"), ("positional_dissim", "pos_dissim"), ("categorical_dissim", "cat_dissim")):
        st = [n for n in walk_no_nested(f.node) if isinstance(n, (ast.Assign, ast.AnnAssign)) and
              norm(n.targets[0] if isinstance(n, ast.Assign) else n.target) == f"{f.self_name}.{fld}"]
        ctx.check(len(st) == 1 and norm(st[0].value) == par, "R-C04-7", f, st[0] if st else None, f"self.{fld} = {par}",
                  bad_detail=f"field {fld} is not initialised from parameter {par}", key=f"role:{fld}")
    # delta_empty travels up the constructor chain unchanged
    for c in M.classes.values():
        if not M.is_subclass(c.name, "AbstractDissimilarity") or "__init__" not in c.methods or c.name == "AbstractDissimilarity":
            continue
        init = c.methods["__init__"]
        if "delta_empty" not in init.params:
            continue
        for n in walk_no_nested(init.node):
            if isinstance(n, ast.Call) and norm(n.func) == "super().__init__":
                parent = next(k for k in M.mro(c)[1:] if "__init__" in k.methods)
                ips = parent.methods["__init__"].params[1:]
                bound = {ips[i]: a for i, a in enumerate(n.args) if i < len(ips)}
                bound.update({k.arg: k.value for k in n.keywords})
                ok = "delta_empty" in bound and norm(bound["delta_empty"]) == "delta_empty"
                ctx.check(ok, "R-C04-7", init, n, f"{c.name} passes its delta_empty to {parent.name}.__init__",
                          bad_detail=f"{c.name} does not forward delta_empty to its base constructor (bound: { {k: norm(v) for k, v in bound.items()} })",
                          key=f"chain:{c.name}")
    base = ctx.fn("AbstractDissimilarity.__init__", "R-C04-7")
    st = [n for n in walk_no_nested(base.node) if isinstance(n, ast.Assign) and norm(n.targets[0]) == f"{base.self_name}.delta_empty"]
    ctx.check(len(st) == 1 and norm(st[0].value) in ("np.float32(delta_empty)", "delta_empty", "float(delta_empty)"), "R-C04-7", base,
              st[0] if st else None, "self.delta_empty = delta_empty", key="base-delta")
    cm = [n for n in walk_no_nested(base.node) if isinstance(n, (ast.Assign, ast.AnnAssign)) and
          norm(n.targets[0] if isinstance(n, ast.Assign) else n.target) == f"{base.self_name}.d_mat" and
          norm(n.value) == f"{base.self_name}.compile_d_mat()"]
    ctx.check(len(cm) == 1, "R-C04-7", base, cm[0] if cm else None, "the kernel used by alignments is the one compile_d_mat() returns", key="base-compile")


def run(ctx: Ctx):
    ctx.clauses += [
        "R-C04-0 array layout (start, end, duration, category index) written by both array builders = slot map of the kernels",
        "R-C04-1 compiled form == unit-to-unit form as rational functions (every concrete class)",
        "R-C04-2 both forms == documented formula (positional, absolute, precomputed, combined)",
        "R-C04-3 symmetric under unit1<->unit2, zero on identical units; matrix constructors write mirrored cells / a symmetric expression, zero diagonal",
        "R-C04-4 integer cast of the category index wide enough (no int8/int16)",
        "R-C04-5 matrix and SortedSet accesses in sorted-rank space, label/position arrays in supplied space (argsort/enumerate tags)",
        "R-C04-6 fields captured by a compiled kernel are never overwritten after compilation without recompiling",
        "R-C04-7 one delta_empty: defaults built with it, supplied categorical component re-parameterised, constructor chain forwards it; alpha/beta/components stored in their own fields",
    ]
    ctx.not_decided += ["Levenshtein distance recurrence (dynamic programme: needs runs)", "float32 rounding", "check_if_dissim's random probes",
                        "a supplied *positional* component keeps its own delta_empty (by design of the library; not claimed)"]
    ctx.assumptions += ["category index <-> name is injective over a dissimilarity's category set", "delta_empty > 0",
                        "user code does not mutate a dissimilarity's fields after construction"]
    array_layout(ctx, "R-C04-0")
    rule_forms(ctx)
    rule_matrix_builders(ctx)
    rule_stale_capture(ctx)
    rule_one_delta(ctx)
