"""C09 - disorder and gamma are invariant under renaming, translation and scaling (DESIGN 4/C09): algebraic facts about every formula on the path."""
from __future__ import annotations

import ast
from typing import Dict, List, Optional, Set

from .. import algebra as A
from ..algebra import Extractor, Rat, Unsupported
from ..core import Ctx
from ..model import dotted, norm, walk_no_nested
from . import nbk
from .common import assigned_value, check_segment_verbatim, expand_locals, prog
from .kernels import SharedKernel, concrete_dissimilarities, extract_d, extract_d_mat

TIME_ATTRS = {"start", "end", "duration", "bound_inf", "bound_sup", "bounds", "minTime", "maxTime"}


def _translate(r: Rat) -> Rat:
    def sigma(name):
        if name[:-1] in ("S", "E") and name[-1] in "12":
            return Rat.var(name) + Rat.var("t")
        return None
    return A.subst(r, sigma)


def _scale(r: Rat) -> Rat:
    A.POSITIVE.add("s")
    try:
        def sigma(name):
            if name[:-1] in ("S", "E", "D") and name[-1] in "12":
                return Rat.var(name) * Rat.var("s")
            return None
        return A.subst(r, sigma)
    finally:
        pass


def run(ctx: Ctx):
    ctx.clauses += [
        "R-C09-1 every kernel (both forms) is invariant under translation of all times and homogeneous of degree 0 under scaling of all times (durations scale with them)",
        "R-C09-2 every cost term is homogeneous of degree 1 in delta_empty: kernels, empty-unit cost in the pair kernel and in the pair matrices, pruning threshold (so the cut keeps the same candidates), fast-window reach test",
        "R-C09-3 on the paths of get_best_alignment / compute_disorder, times are read only by the array builders and the kernels: no other expression can see an absolute position",
        "R-C09-4 annotator names only select a slot (index in the sorted annotator set) and category names only enter through their index in the sorted category set (order) or equality (absolute): "
        "pair sums range over all unordered slot pairs (symmetric), so renaming/permuting annotators cannot change a disorder",
        "R-C09-5 samplers never read the dissimilarity: with the same seed the sampled continua do not depend on delta_empty",
    ]
    ctx.not_decided += ["tie-breaking of the MIP solver between equal-cost optima (does not change the disorder value)", "float32 rounding under translation/scaling",
                        "invariance of gamma itself under time scaling (the samplers work in absolute time units; only the delta_empty clause is claimed for gamma)"]
    ctx.assumptions += ["delta_empty > 0, scale factor > 0", "durations are end - start (pyannote Segment), so they are translation invariant and scale with the times"]
    M, p = ctx.model, prog(ctx)
    check_segment_verbatim(ctx, "R-C09-3")      # the times the kernels see are the times given to add(): no absolute grid in between
    # ---------------- R-C09-1 / R-C09-2 on the kernels
    seen = set()
    for c in concrete_dissimilarities(M):
        for ext in (extract_d_mat, extract_d):
            fn = M.find_method(c, "compile_d_mat" if ext is extract_d_mat else "d")
            if (fn.qualname, ext.__name__) in seen:
                continue
            seen.add((fn.qualname, ext.__name__))
            try:
                k = ext(M, c)
            except SharedKernel as e:
                ctx.bad("R-C09-2", fn, None, f"{c.name}: {e} (a second instance built with c*delta_empty keeps the first one's scale)", key=f"extract:{c.name}",
                        construct=f"{c.name}.d_mat Δ-homogeneity")
                continue
            except Unsupported as e:
                ctx.undecided("R-C09-1", fn, None, f"{c.name}: formula extraction failed: {e}", key=f"extract:{c.name}")
                continue
            ctx.functions_analysed.add(k.fn.qualname)
            tag = f"{fn.cls.name}.{k.kind}"
            tr = _translate(k.form)
            ctx.check(tr == k.form, "R-C09-1", k.fn, None, f"{tag} is unchanged when all starts and ends are shifted by t",
                      bad_detail=f"{tag} depends on absolute position: {k.form}  becomes  {tr} under translation", construct=f"{tag} translation", key=f"transl:{tag}")
            sc = _scale(k.form)
            ctx.check(sc == k.form, "R-C09-1", k.fn, None, f"{tag} is unchanged when all times (and durations) are multiplied by s > 0",
                      bad_detail=f"{tag} is not scale invariant: {k.form}  becomes  {sc}", construct=f"{tag} scaling", key=f"scale:{tag}")
            # delta homogeneity: own delta_empty for plain kernels; components carry theirs for the combined one
            if any(a[0] == "app" and a[1] in ("positional_dissim", "categorical_dissim") for a in k.form.atoms()):
                ctx.check(_linear_in_components(k.form), "R-C09-2", k.fn, None,
                          f"{tag} is a linear combination of its components' values (each homogeneous of degree 1 in delta_empty): scaling delta_empty in all components scales it",
                          bad_detail=f"{tag} = {k.form} is not linear in its components", construct=f"{tag} Δ-homogeneity", key=f"delta:{tag}")
            else:
                deg = A.degree_in(k.form, "Δ")
                ctx.check(deg == 1, "R-C09-2", k.fn, None, f"{tag} is homogeneous of degree 1 in delta_empty",
                          bad_detail=f"{tag} = {k.form} has degree {deg} in delta_empty: multiplying delta_empty by c does not multiply the dissimilarity by c",
                          construct=f"{tag} Δ-homogeneity", key=f"delta:{tag}")
    ctx.floor("R-C09-1", 12, "kernel invariance obligations")
    # empty costs and threshold (reuse the kernel recognisers)
    nbk.check_pair_kernel(ctx, {"empty-cost": "R-C09-2", "normalisation": "R-C09-2", "pair-domain": "R-C09-4"})
    nbk.check_candidates(ctx, {"threshold": "R-C09-2", "matrix-cover": "R-C09-2", "c2n": "R-C09-2", "cost-domain": "R-C09-4", "matrix-domain": "R-C09-4"})
    w = ctx.fn("Continuum.get_first_window", "R-C09-2")
    dpar = w.params[1]
    # the test that compares dissimilarity.d(...) with a threshold; the threshold is read through single-definition locals
    tests = [i for i in ast.walk(w.node) if isinstance(i, ast.If) and isinstance(i.test, ast.Compare) and len(i.test.ops) == 1 and
             any(isinstance(x, ast.Call) and norm(x.func) == f"{dpar}.d" for x in (expand_locals(w.node, i.test.left), expand_locals(w.node, i.test.comparators[0])))]
    if len(tests) != 1:
        ctx.undecided("R-C09-2", w, None, f"expected one reach test on {dpar}.d(...) in get_first_window, found {len(tests)} (not a verdict)", key="reach-test")
    else:
        t = tests[0].test
        l, r = expand_locals(w.node, t.left), expand_locals(w.node, t.comparators[0])
        thr = r if (isinstance(l, ast.Call) and norm(l.func) == f"{dpar}.d") else l

        def factors(e):
            if isinstance(e, ast.BinOp) and isinstance(e.op, ast.Mult):
                return factors(e.left) + factors(e.right)
            return [e]
        fs = factors(thr)
        n_delta = sum(1 for x in fs if norm(x) == f"{dpar}.delta_empty")
        others_clean = all(dpar not in {y.id for y in ast.walk(x) if isinstance(y, ast.Name)} and "delta" not in norm(x)
                           for x in fs if norm(x) != f"{dpar}.delta_empty")
        simple = all(isinstance(x, (ast.Name, ast.Attribute, ast.Constant)) or (isinstance(x, ast.Call) and norm(x.func) == "len") for x in fs)
        if not simple or not others_clean:
            ctx.undecided("R-C09-2", w, tests[0], f"threshold `{norm(thr)}` of the reach test is not a product of plain factors (not a verdict)", key="reach-test")
        else:
            ctx.check(n_delta == 1, "R-C09-2", w, tests[0], "fast-window reach test compares a dissimilarity (degree 1) with n * delta_empty (degree 1): scale-free",
                      bad_detail=f"the reach test of get_first_window compares a dissimilarity with `{norm(thr)}` (degree {n_delta} in delta_empty): "
                                 f"it does not scale with delta_empty", key="reach-test")
    # ---------------- R-C09-3 who reads times
    roots = ["Continuum.get_best_alignment", "Continuum.get_best_soft_alignment", "Alignment.compute_disorder", "SoftAlignment.compute_disorder"]
    reach = p.reachable(roots)
    allowed = {"AbstractDissimilarity._build_arrays_continuum", "AbstractDissimilarity._build_arrays_alignment"}
    n_readers = 0
    for qn, path in sorted(reach.items()):
        f = M.functions.get(qn)
        if f is None or isinstance(f.node, ast.Lambda):
            continue
        reads = [n for n in walk_no_nested(f.node) if isinstance(n, ast.Attribute) and n.attr in TIME_ATTRS and isinstance(n.ctx, ast.Load)]
        if not reads:
            continue
        is_kernel_d = f.name == "d" and f.cls is not None and M.is_subclass(f.cls.name, "AbstractDissimilarity")
        n_readers += 1
        ctx.check(qn in allowed or is_kernel_d, "R-C09-3", f, reads[0], "times are read here only to fill the arrays / evaluate the (invariant) kernel",
                  bad_detail=f"`{norm(reads[0])}` is read on the alignment path outside the array builders and kernels (via {' -> '.join(path[-3:])}): "
                             f"an absolute position or length can influence the result", key=f"reads:{qn}")
    if n_readers < 2:
        ctx.undecided("R-C09-3", None, None, f"only {n_readers} readers of times found on the alignment path (array builders expected)", construct="floor", key="floor")
    # ---------------- R-C09-4 names
    for qn in sorted(allowed):
        f = ctx.fn(qn, "R-C09-4")
        bad = []
        for n in walk_no_nested(f.node):
            if isinstance(n, ast.Name) and n.id == "annotator" and isinstance(n.ctx, ast.Load):
                par = [c for c in ast.walk(f.node) if isinstance(c, ast.Call) and any(n is x for x in list(c.args) + [k.value for k in c.keywords])]
                if not (par and all(isinstance(c.func, ast.Attribute) and c.func.attr == "index" for c in par)):
                    bad.append(n)
        ctx.check(not bad, "R-C09-4", f, bad[0] if bad else None, "the annotator's name is used at most to look up its slot (index in the sorted annotator set)",
                  bad_detail="an annotator name flows into the numeric arrays", construct="uses of annotator", key=f"annotator:{qn}")
        labs = [n for n in walk_no_nested(f.node) if isinstance(n, ast.Attribute) and n.attr == "annotation" and isinstance(n.ctx, ast.Load)]
        okl = bool(labs)
        for n in labs:
            par = [c for c in ast.walk(f.node) if isinstance(c, ast.Call) and any(n is x for x in list(c.args) + [k.value for k in c.keywords])]
            if not (par and all(norm(c.func).split(".")[-1] in ("index", "_category_index") for c in par)):
                okl = False
        ctx.check(okl, "R-C09-4", f, labs[0] if labs else None, "a label enters the arrays only as its index in the sorted category set: order-preserving renamings change nothing",
                  bad_detail="a label reaches the arrays otherwise than through its index in the category set", key=f"label:{qn}")
    h = ctx.fn("AbstractDissimilarity._category_index", "R-C09-4")
    rets = [norm(r.value) for r in walk_no_nested(h.node) if isinstance(r, ast.Return)]
    ctx.check(set(rets) <= {f"{h.params[1]}.index({h.params[2]})", f"len({h.params[1]})"} and f"{h.params[1]}.index({h.params[2]})" in rets, "R-C09-4", h, None,
              "category index = position in the sorted category set (unlabelled: one index past the end)", construct="returns", key="category-index")
    # ---------------- R-C09-5 samplers ignore the dissimilarity
    sroots = [f.qualname for f in M.all_functions() if f.cls is not None and M.is_subclass(f.cls.name, "AbstractContinuumSampler")]
    ctx.require(len(sroots) >= 8, "R-C09-5", f"only {len(sroots)} sampler methods found")
    hits = 0
    for qn, path in sorted(p.reachable(sroots).items()):
        f = M.functions.get(qn)
        if f is None or isinstance(f.node, ast.Lambda):
            continue
        fl = p.flow(f)
        dis_typed = [n for n, t in (fl.types.items() if fl else []) if t is not None and M.is_subclass(t.name, "AbstractDissimilarity")]
        attrs = [n for n in walk_no_nested(f.node) if isinstance(n, ast.Attribute) and n.attr in ("delta_empty", "d_mat", "alpha", "beta", "positional_dissim", "categorical_dissim")]
        if f.cls is not None and M.is_subclass(f.cls.name, "AbstractDissimilarity"):
            dis_typed.append("self")
        if dis_typed or attrs:
            hits += 1
            ctx.bad("R-C09-5", f, attrs[0] if attrs else None, f"sampling code reaches a dissimilarity ({dis_typed or norm(attrs[0])}; via {' -> '.join(path[-3:])}): "
                    f"the sampled continua, hence gamma, would depend on delta_empty", key=f"sampler-reads:{qn}")
    if not hits:
        ctx.ok("R-C09-5", None, None, f"{len(p.reachable(sroots))} functions reachable from the samplers: none receives or reads a dissimilarity", construct="(sweep)", key="samplers")
    cg = ctx.fn("Continuum.compute_gamma", "R-C09-5")
    dp = cg.params[1]
    uses = [c for c in walk_no_nested(cg.node) if isinstance(c, ast.Call) and any(isinstance(x, ast.Name) and x.id == dp for a in list(c.args) + [k.value for k in c.keywords] for x in ast.walk(a))]
    bad = [c for c in uses if "sampler" in norm(c.func) or "init_sampling" in norm(c.func)]
    ctx.check(not bad, "R-C09-5", cg, bad[0] if bad else None, "compute_gamma never hands the dissimilarity to the sampler", key="no-dissimilarity-to-sampler")


def _linear_in_components(r: Rat) -> bool:
    """r = sum coef_i * app_i with coefficients free of delta_empty and of the components"""
    if not r.d.is_const():
        return False
    for m, c in r.n.t.items():
        apps = [(a, pw) for a, pw in m if a[0] == "app"]
        if len(apps) != 1 or apps[0][1] != 1:
            return False
        if any(a == ("v", "Δ") for a, _ in m):
            return False
    return True
