"""C17 - alignment validity checks accept exactly partitions and covers (DESIGN 4/C17)."""
from __future__ import annotations

import ast
from typing import List, Optional

from ..cfg import CFG, EXIT, RAISE
from ..core import Ctx
from ..model import body_stmts, dotted, kwarg, norm, walk_no_nested
from .common import assigned_value, bound_args, check_alignment_record, check_unitary_record, enclosing, prog, resolve_local, stores_to


def _raises(stmts, exc: str) -> bool:
    return any(isinstance(s, ast.Raise) and s.exc is not None and (dotted(s.exc.func) if isinstance(s.exc, ast.Call) else dotted(s.exc)) == exc for s in stmts)


def _continuum_resolution(ctx: Ctx, f, rule: str):
    sn, cp = f.self_name, f.params[1]
    first = body_stmts(f.node)[0]
    ok = isinstance(first, ast.If) and norm(first.test) == f"{cp} is None" and len(first.body) == 2 and \
        isinstance(first.body[0], ast.If) and norm(first.body[0].test) == f"{sn}.continuum is None" and _raises(first.body[0].body, "ValueError") and \
        norm(first.body[1]) == f"{cp} = {sn}.continuum"
    # the same resolution, assignment first: `if c is None: c = self.continuum ; if c is None: raise ValueError`
    ok = ok or (isinstance(first, ast.If) and norm(first.test) == f"{cp} is None" and len(first.body) == 2 and not first.orelse and
                norm(first.body[0]) == f"{cp} = {sn}.continuum" and isinstance(first.body[1], ast.If) and norm(first.body[1].test) == f"{cp} is None" and
                not first.body[1].orelse and _raises(first.body[1].body, "ValueError"))
    if not ok and not (isinstance(first, ast.If) and f"{cp}" in norm(first.test)):
        ctx.undecided(rule, f, first, "the resolution of the continuum to check against is not the first statement: shape not recognised (not a verdict)", key="continuum-resolution")
        return
    ctx.check(ok, rule, f, first, "checks against the given continuum, else the attached one, else ValueError", key="continuum-resolution")


def _collect_pairs_from_alignment(f, listname: str) -> Optional[ast.For]:
    """for ua in self.unitary_alignments: for (annotator, unit) in ua.n_tuple: if unit is None: continue; L.append((annotator, unit))"""
    sn = f.self_name
    for O in walk_no_nested(f.node):
        if isinstance(O, ast.For) and norm(O.iter) in (f"{sn}.unitary_alignments", sn, f"enumerate({sn})", f"enumerate({sn}.unitary_alignments)"):
            ua = [norm(x) for x in ast.walk(O.target) if isinstance(x, ast.Name)][-1]
            for I in O.body:
                if isinstance(I, ast.For) and norm(I.iter) == f"{ua}.n_tuple" and isinstance(I.target, ast.Tuple) and len(I.target.elts) == 2:
                    a, u = norm(I.target.elts[0]), norm(I.target.elts[1])
                    return O, I, a, u
    return None


def rule_partition_check(ctx: Ctx):
    f = ctx.fn("Alignment.check", "R-C17-1")
    sn, cp = f.self_name, f.params[1]
    _continuum_resolution(ctx, f, "R-C17-1")
    cfg = CFG(f.node)
    # continuum pairs
    cset = None
    for L in walk_no_nested(f.node):
        if isinstance(L, ast.For) and norm(L.iter) == cp and isinstance(L.target, ast.Tuple) and len(L.target.elts) == 2:
            a, u = norm(L.target.elts[0]), norm(L.target.elts[1])
            for s in L.body:
                if isinstance(s, ast.Expr) and isinstance(s.value, ast.Call) and isinstance(s.value.func, ast.Attribute) and s.value.func.attr == "add" \
                        and norm(s.value.args[0]) == f"({a}, {u})" and len(L.body) == 1:
                    cset = norm(s.value.func.value)
    for s in walk_no_nested(f.node):
        if isinstance(s, ast.Assign) and isinstance(s.value, (ast.SetComp,)) and norm(s.value.generators[0].iter) == cp and not s.value.generators[0].ifs:
            tg = s.value.generators[0].target
            if isinstance(tg, ast.Tuple) and norm(s.value.elt) == norm(tg):
                cset = norm(s.targets[0])
    cdef = assigned_value(f.node, cset) if cset else []
    ok_c = cset is not None and len(cdef) == 1 and (norm(cdef[0]) == "set()" or isinstance(cdef[0], ast.SetComp))
    ctx.check(ok_c, "R-C17-1", f, cdef[0] if cdef else None, "every (annotator, unit) of the continuum is collected into a set",
              bad_detail="the (annotator, unit) pairs of the continuum are not all collected into a set", key="continuum-pairs")
    # alignment pairs (canonical form after load-time normalisation: one comprehension over the unitary alignments and their slots)
    lst = None
    anode = None
    ok_a = False
    recognised = False
    inline_comp = None
    for c_ in walk_no_nested(f.node):
        if isinstance(c_, ast.ListComp) and len(c_.generators) == 2:
            g0, g1 = c_.generators
            if isinstance(g0.target, ast.Name) and norm(g1.iter) == f"{g0.target.id}.n_tuple":
                recognised = True
                holder = next((s_ for s_ in walk_no_nested(f.node) if isinstance(s_, ast.Assign) and s_.value is c_ and len(s_.targets) == 1
                               and isinstance(s_.targets[0], ast.Name)), None)
                # a list used once right after its construction is written in place of its name by the load-time normalisation
                lst, anode = (holder.targets[0].id, holder) if holder is not None else (norm(c_), c_)
                inline_comp = c_ if holder is None else None
                if isinstance(g1.target, ast.Tuple) and len(g1.target.elts) == 2:
                    a, u = norm(g1.target.elts[0]), norm(g1.target.elts[1])
                    ok_a = norm(g0.iter) in (f"{sn}.unitary_alignments", sn) and not g0.ifs and [norm(c) for c in g1.ifs] == [f"{u} is not None"] and norm(c_.elt) == f"({a}, {u})" and \
                        (holder is None or len(stores_to(f.node, lst)) == 1)
    got = (None, anode) if anode is not None else None
    if not recognised:
        ctx.undecided("R-C17-1", f, None, "the collection of the alignment's (annotator, unit) occurrences is not a loop nest / comprehension over "
                      "self.unitary_alignments x n_tuple (not a verdict)", key="alignment-pairs")
        return
    ctx.check(ok_a, "R-C17-1", f, got[1] if got else None, "every non-empty slot of every unitary alignment is collected once (with multiplicity), empty slots skipped",
              bad_detail="the alignment's (annotator, unit) occurrences are not collected slot by slot with empty slots skipped", key="alignment-pairs")
    if not (ok_c and ok_a):
        return
    # missing
    miss = [s for s in walk_no_nested(f.node) if isinstance(s, ast.Assign) and isinstance(s.value, ast.BinOp) and isinstance(s.value.op, ast.Sub)
            and norm(s.value.left) == cset and norm(s.value.right) in (f"set({lst})", f"frozenset({lst})")]
    okm = False
    mnode = None
    if len(miss) == 1:
        mv = norm(miss[0].targets[0])
        for i in walk_no_nested(f.node):
            if isinstance(i, ast.If) and norm(i.test) in (mv, f"len({mv}) > 0", f"len({mv}) != 0") and _raises([x for x in ast.walk(i) if isinstance(x, ast.Raise)], "SetPartitionError"):
                first = cfg.node_of(i.body[0])
                okm = first is not None and cfg.exits_after(first) == {RAISE} and not i.orelse
                mnode = i
    ctx.check(okm, "R-C17-1", f, mnode or (miss[0] if miss else None),
              "a unit of the continuum absent from the alignment raises SetPartitionError (missing = continuum pairs - alignment pairs, non-empty -> error)",
              bad_detail="a missing unit is not reported: `continuum pairs - set(alignment pairs)` non-empty must always raise SetPartitionError", key="missing")
    # repeated
    cnt = [s for s in walk_no_nested(f.node) if isinstance(s, ast.Assign) and isinstance(s.value, ast.Call) and dotted(s.value.func) in ("Counter", "collections.Counter")
           and norm(s.value.args[0]) == lst]
    okr = False
    rnode = None
    if len(cnt) == 1:
        cv = norm(cnt[0].targets[0])
        for s in walk_no_nested(f.node):
            if isinstance(s, ast.Assign) and isinstance(s.value, (ast.SetComp, ast.ListComp)) and norm(s.value.generators[0].iter) == f"{cv}.items()":
                g = s.value.generators[0]
                tn = [norm(x) for x in g.target.elts] if isinstance(g.target, ast.Tuple) else []
                thr = [norm(c) for c in g.ifs]
                if len(tn) == 2 and norm(s.value.elt) == tn[0] and thr in ([f"{tn[1]} > 1"], [f"{tn[1]} >= 2"], [f"1 < {tn[1]}"]):
                    rv = norm(s.targets[0])
                    for i in walk_no_nested(f.node):
                        if isinstance(i, ast.If) and norm(i.test) in (rv, f"len({rv}) > 0") and not i.orelse:
                            first = cfg.node_of(i.body[0])
                            if first is not None and cfg.exits_after(first) == {RAISE} and _raises([x for x in ast.walk(i) if isinstance(x, ast.Raise)], "SetPartitionError"):
                                okr, rnode = True, i
    ctx.check(okr, "R-C17-1", f, rnode or (cnt[0] if cnt else None),
              "a unit occurring more than once (multiplicity > 1 over all unitary alignments) raises SetPartitionError",
              bad_detail="a repeated unit is not reported: every pair with Counter multiplicity > 1 must raise SetPartitionError", key="repeated")
    # success path exists: EXIT reachable when both tests are false, and only through both tests
    ctx.check(EXIT in cfg.reachable(0), "R-C17-1", f, None, "a valid partition passes (normal exit reachable)", construct="normal exit", key="accepts")
    if mnode is not None and rnode is not None:
        both = cfg.must_pass(EXIT, {cfg.node_of(mnode)}) and cfg.must_pass(EXIT, {cfg.node_of(rnode)})
        ctx.check(both, "R-C17-1", f, mnode, "every normal exit of check() has evaluated the missing-unit test and the repeated-unit test",
                  bad_detail="check() can return normally without evaluating the missing-unit or the repeated-unit test (early return / skipped branch)",
                  key="both-tests-on-every-exit")
    # order-insensitive consumers of the collected pairs
    uses = [n for n in walk_no_nested(f.node) if (isinstance(n, ast.Name) and n.id == lst and isinstance(n.ctx, ast.Load)) or (inline_comp is not None and n is inline_comp)]
    bad_uses = []
    for n in uses:
        par = enclosing(f.node, n, (ast.Call,))
        okuse = any(isinstance(c.func, ast.Attribute) and c.func.attr == "append" and norm(c.func.value) == lst for c in par) or \
            any(dotted(c.func) in ("set", "frozenset", "Counter", "collections.Counter", "len") and c.args and c.args[0] is n for c in par)
        if not okuse:
            bad_uses.append(n)
    ctx.check(not bad_uses, "R-C17-2", f, bad_uses[0] if bad_uses else None,
              "the collected occurrences only flow into set() / Counter(): the verdict cannot depend on the order of the unitary alignments",
              bad_detail="the collected occurrences are consumed in an order-sensitive way", construct=f"uses of {lst}", key="order-insensitive")
    # same-length pre-check raises ValueError only (never swallows)
    pre = [L for L in walk_no_nested(f.node) if isinstance(L, ast.For) and norm(L.iter) == f"{sn}.unitary_alignments" and any(isinstance(x, ast.Raise) for x in ast.walk(L))]
    for L in pre:
        ctx.check(all(_raises([x], "ValueError") for x in ast.walk(L) if isinstance(x, ast.Raise)), "R-C17-1", f, L,
                  "unitary alignments of unequal length are rejected with ValueError before the partition tests", key="length-precheck")


def rule_cover_check(ctx: Ctx):
    f = ctx.fn("SoftAlignment.check", "R-C17-3")
    sn, cp = f.self_name, f.params[1]
    _continuum_resolution(ctx, f, "R-C17-3")
    cfg = CFG(f.node)
    occ = None
    for s in walk_no_nested(f.node):
        if isinstance(s, ast.Assign) and isinstance(s.targets[0], ast.Name):
            v = s.value
            inner = v.args[0] if isinstance(v, ast.Call) and dotted(v.func) in ("SortedDict", "dict") and v.args else v
            if isinstance(inner, ast.DictComp) and norm(inner.generators[0].iter) == f"{cp}._annotations.items()":
                a, us = [norm(x) for x in inner.generators[0].target.elts]
                iv = inner.value
                iv2 = iv.args[0] if isinstance(iv, ast.Call) and dotted(iv.func) in ("SortedDict", "dict") and iv.args else iv
                if norm(inner.key) == a and isinstance(iv2, ast.DictComp) and norm(iv2.generators[0].iter) == us and \
                        norm(iv2.key) == norm(iv2.generators[0].target) and norm(iv2.value) == "0" and not iv2.generators[0].ifs and not inner.generators[0].ifs:
                    occ = s.targets[0].id
    ctx.check(occ is not None, "R-C17-3", f, None, "one zero-initialised occurrence counter per (annotator, unit) of the continuum",
              bad_detail="occurrence counters are not zero-initialised for every unit of every annotator of the continuum", construct="counters", key="counters")
    if occ is None:
        return
    got = _collect_pairs_from_alignment(f, occ)
    okinc = False
    if got:
        O, I, a, u = got
        inc = [s for s in ast.walk(I) if isinstance(s, ast.AugAssign) and norm(s.target) == f"{occ}[{a}][{u}]" and isinstance(s.op, ast.Add) and norm(s.value) == "1"]
        if len(inc) == 1:
            ifs = enclosing(I, inc[0], (ast.If,))
            okinc = len(ifs) == 1 and norm(ifs[0].test) == f"{u} is not None" and len(I.body) == 1 and len(O.body) == 1
    ctx.check(okinc, "R-C17-3", f, got[1] if got else None, "each non-empty slot occurrence increments its unit's counter by one",
              bad_detail="occurrences are not counted once per non-empty slot", key="count")
    okz = False
    znode = None
    for L in walk_no_nested(f.node):
        if isinstance(L, ast.For) and norm(L.iter) == f"{occ}.items()" and isinstance(L.target, ast.Tuple):
            fa = norm(L.target.elts[1])
            for L2 in L.body:
                if isinstance(L2, ast.For) and norm(L2.iter) == f"{fa}.items()" and isinstance(L2.target, ast.Tuple) and len(L.body) == 1:
                    cnt = norm(L2.target.elts[1])
                    for i in L2.body:
                        if isinstance(i, ast.If) and norm(i.test) in (f"{cnt} == 0", f"{cnt} < 1", f"{cnt} <= 0", f"not {cnt}") and not i.orelse and \
                                _raises(i.body, "SetPartitionError") and len(L2.body) == 1:
                            okz, znode = True, i
    if not okz:
        # the same test as a search: `m = next((u for u, cnt in per_annotator.items() if cnt == 0), None)` then `if m is not None: raise SetPartitionError`
        for L in walk_no_nested(f.node):
            if not (isinstance(L, ast.For) and norm(L.iter) == f"{occ}.items()" and isinstance(L.target, ast.Tuple) and len(L.body) == 2):
                continue
            fa = norm(L.target.elts[1])
            a_, i_ = L.body
            if isinstance(a_, ast.Assign) and isinstance(a_.targets[0], ast.Name) and isinstance(a_.value, ast.Call) and norm(a_.value.func) == "next" and len(a_.value.args) == 2 and \
                    isinstance(a_.value.args[0], ast.GeneratorExp) and norm(a_.value.args[1]) == "None" and isinstance(i_, ast.If) and not i_.orelse and \
                    norm(i_.test) == f"{a_.targets[0].id} is not None" and _raises(i_.body, "SetPartitionError"):
                g_ = a_.value.args[0]
                gen = g_.generators[0]
                if len(g_.generators) == 1 and norm(gen.iter) == f"{fa}.items()" and isinstance(gen.target, ast.Tuple) and len(gen.ifs) == 1 and \
                        norm(g_.elt) == norm(gen.target.elts[0]) and norm(gen.ifs[0]) in (f"{norm(gen.target.elts[1])} == 0", f"{norm(gen.target.elts[1])} < 1",
                                                                                       f"not {norm(gen.target.elts[1])}"):
                    okz, znode = True, i_
    shape_found = okz or any(isinstance(L, ast.For) and norm(L.iter) == f"{occ}.items()" and any(isinstance(x, ast.For) for x in L.body) for L in walk_no_nested(f.node))
    if not shape_found:
        ctx.undecided("R-C17-3", f, None, "the test of the occurrence counters is neither the double loop `count == 0 -> SetPartitionError` nor a `next(...)` search over "
                      "them: shape not recognised (not a verdict)", key="zero-test")
    else:
        ctx.check(okz, "R-C17-3", f, znode, "SetPartitionError iff some unit of the continuum has count 0 (occurs in no unitary alignment)",
                  bad_detail="the cover test is not `count == 0 -> SetPartitionError` over every unit", key="zero-test")
    ctx.check(EXIT in cfg.reachable(0), "R-C17-3", f, None, "a valid cover passes (normal exit reachable)", construct="normal exit", key="accepts")
    if znode is not None:
        zl = enclosing(f.node, znode, (ast.For,))
        ctx.check(bool(zl) and cfg.must_pass(EXIT, {cfg.node_of(zl[0])}) and (not got or cfg.must_pass(cfg.node_of(zl[0]), {cfg.node_of(got[0])})), "R-C17-3", f, znode,
                  "every normal exit of the soft check() has counted the occurrences and scanned every counter",
                  bad_detail="the soft check() can return normally without counting / scanning the counters", key="scan-on-every-exit")


def rule_constructors(ctx: Ctx):
    M, p = ctx.model, prog(ctx)
    f = ctx.fn("Alignment.__init__", "R-C17-4")
    sn = f.self_name
    calls = [c for c in walk_no_nested(f.node) if isinstance(c, ast.Call) and norm(c.func) == f"{sn}.check"]
    ok = False
    if len(calls) == 1 and not calls[0].args:
        cfg = CFG(f.node)
        cn = cfg.node_containing(calls[0])
        ifs = [i for i in walk_no_nested(f.node) if isinstance(i, ast.If) and "check_validity" in norm(i.test)]
        if len(ifs) == 1:
            i = ifs[0]
            t = norm(i.test)
            in_body = any(calls[0] is x for b in i.body for x in ast.walk(b))
            in_else = any(calls[0] is x for b in i.orelse for x in ast.walk(b))
            after = not in_body and not in_else
            if t == "check_validity":
                ok = in_body
            elif t == "not check_validity":
                ok = in_else or (after and all(isinstance(s, ast.Return) for s in i.body) and len(i.body) == 1)
            # the attributes check() reads must be set before it runs
            sets = [cfg.node_of(s) for s in walk_no_nested(f.node) if isinstance(s, (ast.Assign, ast.AnnAssign)) and
                    norm(s.targets[0] if isinstance(s, ast.Assign) else s.target) in (f"{sn}.unitary_alignments", f"{sn}.continuum")]
            ok = ok and len(sets) == 2 and all(cfg.dominates(x, cn) for x in sets)
    ctx.check(ok, "R-C17-4", f, calls[0] if calls else None, "the constructor runs self.check() iff check_validity (after the fields it reads are set); "
              "dynamic dispatch picks the subclass's check", bad_detail="Alignment.__init__ does not call self.check() exactly when check_validity is set", key="ctor")
    g = ctx.fn("SoftAlignment.__init__", "R-C17-4")
    sup = [c for c in walk_no_nested(g.node) if isinstance(c, ast.Call) and norm(c.func) == "super().__init__"]
    okg = False
    if len(sup) == 1 and "check_validity" in g.params and len(g.params) == len(f.params):
        ba = bound_args(sup[0], f)
        okg = ba is not None and all(p in ba and norm(ba[p]) == q for p, q in zip(f.params[1:], g.params[1:]))
    ctx.check(okg, "R-C17-4", g, sup[0] if sup else None, "SoftAlignment passes check_validity (and the other arguments) through to Alignment.__init__",
              bad_detail="SoftAlignment.__init__ does not forward check_validity to the base constructor", key="soft-ctor")
    # dispatch: SoftAlignment overrides check
    ctx.check("check" in M.classes["SoftAlignment"].methods and M.is_subclass("SoftAlignment", "Alignment"), "R-C17-4", g, None,
              "SoftAlignment overrides check(): validation at construction applies the cover test to soft alignments", construct="override", key="override")


def rule_message_formatting(ctx: Ctx):
    """the checks raise SetPartitionError(<message naming the offending units>): the message is built first, and building it formats Unit
    objects.  On the pinned tree that is the dataclass repr, which cannot fail.  A `__str__` / `__repr__` / `__format__` on Unit (or on
    UnitaryAlignment, which one message embeds) runs in the middle of every refusal: a format specification applied to the Optional label
    raises TypeError for an unlabelled unit - the check then fails with the wrong exception (recognised shape); a plain f-string over the
    fields is accepted; anything else is not decided."""
    M = ctx.model
    n = 0
    for cname in ("Unit", "UnitaryAlignment", "Segment"):
        c = M.classes.get(cname)
        if c is None:
            continue
        for mname in ("__str__", "__repr__", "__format__"):
            g = c.methods.get(mname)
            if g is None:
                continue
            n += 1
            ctx.functions_analysed.add(g.qualname)
            sn = g.self_name
            rets = [r for r in walk_no_nested(g.node) if isinstance(r, ast.Return) and r.value is not None]
            body_ok = len(rets) == 1 and len([s for s in g.node.body if not (isinstance(s, ast.Expr) and isinstance(s.value, ast.Constant))]) == 1
            risky = None
            plain = body_ok and isinstance(rets[0].value, (ast.JoinedStr, ast.Constant))
            if body_ok and isinstance(rets[0].value, ast.JoinedStr):
                for fv in rets[0].value.values:
                    if not isinstance(fv, ast.FormattedValue):
                        continue
                    t = norm(fv.value)
                    optional = t in (f"{sn}.annotation", f"{sn}.disorder", f"{sn}._disorder")
                    if fv.format_spec is not None and optional:
                        risky = fv
                    elif not (t.startswith(f"{sn}.") and all(isinstance(x, (ast.Attribute, ast.Name, ast.Load)) for x in ast.walk(fv.value))):
                        plain = False
            if risky is not None:
                ctx.bad("R-C17-1", g, risky, f"{cname}.{mname} applies the format specification `{norm(risky.format_spec)}` to `{norm(risky.value)}`, which is None for an unlabelled "
                        f"unit: the SetPartitionError message of check() cannot be built and the refusal surfaces as TypeError", key=f"format:{cname}.{mname}")
            elif plain:
                ctx.ok("R-C17-1", g, rets[0], f"{cname}.{mname} is a plain f-string over the object's fields: building the error message cannot fail", key=f"format:{cname}.{mname}")
            else:
                ctx.undecided("R-C17-1", g, None, f"{cname}.{mname} runs while check() builds its SetPartitionError message; whether it can raise is not decided (not a verdict)",
                              key=f"format:{cname}.{mname}", construct=mname)
    if n == 0:
        ctx.ok("R-C17-1", None, None, "Unit / UnitaryAlignment are formatted by their default (dataclass / object) repr in the error messages: cannot fail",
               construct="message formatting", key="format:default")


def run(ctx: Ctx):
    ctx.clauses += [
        "R-C17-1 Alignment.check: missing = continuum pairs - alignment pairs -> SetPartitionError; multiplicity > 1 -> SetPartitionError; empty slots skipped; normal exit otherwise",
        "R-C17-2 the collected occurrences only flow into order-insensitive consumers (set, Counter): independent of the order of unitary alignments",
        "R-C17-3 SoftAlignment.check: zero-initialised counter per continuum unit, +1 per occurrence, SetPartitionError iff a counter is 0",
        "R-C17-4 constructors call self.check() iff check_validity; SoftAlignment forwards the flag and overrides check",
    ]
    ctx.not_decided += ["behaviour on units foreign to the continuum (outside the property's quantifier: alignments over the continuum's units)"]
    ctx.assumptions += ["Unit is hashable with value equality (frozen dataclass)"]
    rule_message_formatting(ctx)
    check_unitary_record(ctx, "R-C17-1", nb_units=False)
    check_alignment_record(ctx, "R-C17-4")
    rule_partition_check(ctx)
    rule_cover_check(ctx)
    rule_constructors(ctx)
