"""Obligations, verdicts, known findings, evidence files, exit codes (DESIGN 1.2)."""
from __future__ import annotations

import hashlib
import json
import os
import sys
import time
from dataclasses import dataclass, field
from pathlib import Path
from typing import Any, Dict, List, Optional

from .model import AnalysisError, FuncInfo, Model, norm

VERIF = Path(__file__).resolve().parent.parent
KNOWN_FINDINGS = VERIF / "known_findings.json"

DISCHARGED, VIOLATED, UNDECIDED = "DISCHARGED", "VIOLATED", "UNDECIDED"


@dataclass
class Obl:
    rule: str
    verdict: str
    where: str              # file:line function
    function: str
    construct: str          # normalised text / abstract case
    detail: str
    key: str                # rule|function|construct-key  (line independent)
    known: Optional[dict] = None

    def sample(self) -> dict:
        d = {"rule": self.rule, "verdict": self.verdict, "at": self.where, "function": self.function,
             "construct": self.construct[:300], "detail": self.detail[:600]}
        if self.known:
            d["known_finding"] = self.known.get("id")
        return d


class Ctx:
    def __init__(self, prop: str, repo: Path, tier: str, model: Optional[Model] = None):
        self.prop = prop
        self.repo = Path(repo)
        self.tier = tier
        self.model = model if model is not None else Model(self.repo)
        self.obls: List[Obl] = []
        self.counts: Dict[str, int] = {}
        self.info: List[str] = []
        self.notes: Dict[str, Any] = {}
        self.functions_analysed: set = set()
        self.t0 = time.time()
        self.clauses: List[str] = []       # what is decided
        self.not_decided: List[str] = []
        self.assumptions: List[str] = []
        self.quiet = False

    # ---- recording --------------------------------------------------------------------------
    def _where(self, f: Optional[FuncInfo], node) -> str:
        if f is None:
            return "-"
        return f"{f.loc(node)} {f.qualname}"

    def _add(self, rule, verdict, f, node, construct, detail, key):
        if construct is None and node is not None:
            construct = norm(node)
        fn = f.qualname if f is not None else "-"
        if f is not None:
            self.functions_analysed.add(fn)
        k = f"{rule}|{fn}|{key if key is not None else construct}"
        self.obls.append(Obl(rule, verdict, self._where(f, node), fn, construct or "", detail, k))
        self.counts[rule] = self.counts.get(rule, 0) + 1

    def ok(self, rule: str, f: Optional[FuncInfo], node=None, detail: str = "", construct: Optional[str] = None,
           key: Optional[str] = None):
        self._add(rule, DISCHARGED, f, node, construct, detail, key)

    def bad(self, rule: str, f: Optional[FuncInfo], node=None, detail: str = "", construct: Optional[str] = None,
            key: Optional[str] = None):
        self._add(rule, VIOLATED, f, node, construct, detail, key)

    def undecided(self, rule: str, f: Optional[FuncInfo], node=None, detail: str = "",
                  construct: Optional[str] = None, key: Optional[str] = None):
        self._add(rule, UNDECIDED, f, node, construct, detail, key)

    def check(self, cond: bool, rule: str, f: Optional[FuncInfo], node=None, detail: str = "",
              construct: Optional[str] = None, key: Optional[str] = None, bad_detail: Optional[str] = None):
        if cond:
            self.ok(rule, f, node, detail, construct, key)
        else:
            self.bad(rule, f, node, bad_detail or detail, construct, key)
        return cond

    def floor(self, rule: str, minimum: int, what: str):
        """vacuity guard: rule must have matched at least `minimum` instances"""
        n = self.counts.get(rule, 0)
        if n < minimum:
            self.undecided(rule, None, None, f"vacuity guard: {what}: matched {n} instance(s), floor {minimum}",
                           construct=f"floor:{what}", key=f"floor:{what}")

    def require(self, cond, rule: str, msg: str):
        if not cond:
            raise AnalysisError(rule, msg)

    def note(self, msg: str):
        self.info.append(msg)

    def fn(self, qualname: str, rule: str) -> FuncInfo:
        f = self.model.fn(qualname, rule)
        self.functions_analysed.add(f.qualname)
        return f


def load_known() -> List[dict]:
    if not KNOWN_FINDINGS.exists():
        return []
    return json.loads(KNOWN_FINDINGS.read_text())["findings"]


def finish(ctx: Ctx, seed: int, evidence_path: Optional[Path], extra_cov: Optional[dict] = None,
           out=None) -> int:
    """Match violations against known findings, print the verdict lines, write the evidence, return exit code."""
    out = out or sys.stdout
    known = [k for k in load_known() if k["property"] == ctx.prop and k.get("status") == "known"]
    used_known = set()
    viol, und = [], []
    for o in ctx.obls:
        if o.verdict == VIOLATED:
            hit = None
            for k in known:
                if k["rule"] == o.rule and k["function"] == o.function and k["construct_contains"] in o.key + " " + o.construct:
                    hit = k
                    break
            if hit:
                o.known = hit
                used_known.add(hit["id"])
            else:
                viol.append(o)
        elif o.verdict == UNDECIDED:
            und.append(o)
    replay_dir = VERIF / "evidence" / "replay"
    lines = []
    for o in ctx.obls:
        if o.known:
            lines.append(f"KNOWN-FINDING: property={ctx.prop} {o.known['id']} {o.rule} at {o.where}: {o.known['what']}")
    seen_lines = set()
    lines = [l for l in lines if not (l in seen_lines or seen_lines.add(l))]
    for o in und:
        lines.append(f"ANALYSIS-ERROR property={ctx.prop} rule={o.rule} at {o.where}: {o.detail}")
    for o in viol:
        replay_dir.mkdir(parents=True, exist_ok=True)
        h = hashlib.sha1(o.key.encode()).hexdigest()[:12]
        rp = replay_dir / f"{ctx.prop}-{o.rule}-{h}.json"
        rp.write_text(json.dumps({"property": ctx.prop, "rule": o.rule, "at": o.where, "function": o.function,
                                  "construct": o.construct, "detail": o.detail, "key": o.key,
                                  "repo": str(ctx.repo)}, indent=1))
        lines.append(f"{o.rule} VIOLATED at {o.where}: {o.construct[:160]} -- {o.detail}")
        lines.append(f"VIOLATION property={ctx.prop} replay={rp}")
    n_ok = sum(1 for o in ctx.obls if o.verdict == DISCHARGED)
    n_known = sum(1 for o in ctx.obls if o.known)
    wall = time.time() - ctx.t0
    summary = (f"{ctx.prop} [{ctx.tier}] obligations={len(ctx.obls)} discharged={n_ok} violated={len(viol)} "
               f"known={n_known} undecided={len(und)} functions={len(ctx.functions_analysed)} "
               f"rules={len(ctx.counts)} wall={wall:.2f}s")
    if not ctx.quiet:
        for r in sorted(ctx.counts):
            print(f"  {r}: {ctx.counts[r]} instance(s)", file=out)
        for i in ctx.info:
            print(f"  INFO {i}", file=out)
    for l in lines:
        print(l, file=out)
    print(summary, file=out)
    code = 1 if viol else (2 if und else 0)

    if evidence_path is not None:
        samples = [o.sample() for o in ctx.obls if o.verdict != DISCHARGED]
        per_rule_seen = set()
        for o in ctx.obls:
            if o.verdict == DISCHARGED and (o.rule not in per_rule_seen or len(samples) < 60):
                per_rule_seen.add(o.rule)
                samples.append(o.sample())
        cov = {
            "explanation": (f"Static analysis (python ast, no execution) of {ctx.repo}/pygamma_agreement. "
                            f"Decided clauses: " + " | ".join(ctx.clauses) +
                            (" || NOT decided (outside the reach of a static argument): " + " | ".join(ctx.not_decided)
                             if ctx.not_decided else "")),
            "obligations": len(ctx.obls),
            "discharged": n_ok,
            "violated": len(viol),
            "known_findings": n_known,
            "undecided": len(und),
            "functions_analysed": sorted(ctx.functions_analysed),
            "rule_instances": dict(sorted(ctx.counts.items())),
            "source_digest": ctx.model.digest.hexdigest()[:16],
            "samples": samples[:120],
            "info": ctx.info[:40],
        }
        cov.update(ctx.notes)
        if extra_cov:
            cov.update(extra_cov)
        ev = {"property_id": ctx.prop, "tier": ctx.tier, "seed": seed, "level": "other", "coverage": cov,
              "assumptions": ctx.assumptions, "wall_s": round(wall, 3), "violations": len(viol)}
        evidence_path.parent.mkdir(parents=True, exist_ok=True)
        tmp = evidence_path.with_suffix(".tmp")
        tmp.write_text(json.dumps(ev, indent=1, default=str))
        os.replace(tmp, evidence_path)
    return code
