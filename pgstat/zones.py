"""Loop-nest domains, write regions and small linear reasoning over index variables (DESIGN 3.5)."""
from __future__ import annotations

import ast
from fractions import Fraction
from typing import Callable, Dict, List, Optional, Tuple

from .cases import Lin
from .model import dotted, norm


class ZUnsupported(Exception):
    pass


def to_lin(e: ast.AST, resolve: Optional[Callable[[str], Optional[ast.AST]]] = None, depth: int = 0) -> Lin:
    """integer expression -> linear form over named atoms (locals resolved through `resolve` when single-defined)"""
    if isinstance(e, ast.Constant) and isinstance(e.value, int) and not isinstance(e.value, bool):
        return Lin.num(e.value)
    if isinstance(e, ast.Name):
        if resolve is not None and depth < 4:
            d = resolve(e.id)
            if d is not None:
                try:
                    return to_lin(d, resolve, depth + 1)
                except ZUnsupported:
                    pass
        return Lin.atom(e.id)
    if isinstance(e, ast.BinOp):
        if isinstance(e.op, (ast.Add, ast.Sub)):
            a, b = to_lin(e.left, resolve, depth), to_lin(e.right, resolve, depth)
            return a + b if isinstance(e.op, ast.Add) else a - b
        if isinstance(e.op, ast.Mult):
            a, b = to_lin(e.left, resolve, depth), to_lin(e.right, resolve, depth)
            if a.is_const():
                return b.scale(a.const)
            if b.is_const():
                return a.scale(b.const)
    if isinstance(e, ast.Call) and dotted(e.func) == "len" and len(e.args) == 1:
        return Lin.atom(f"len({norm(e.args[0])})")
    if isinstance(e, ast.Subscript):
        return Lin.atom(norm(e))
    if isinstance(e, ast.Attribute):
        return Lin.atom(norm(e))
    raise ZUnsupported(f"not a linear index expression: {norm(e)}")


def nonneg(l: Lin) -> bool:
    """l >= 0 for all non-negative atom values (sufficient: every coefficient and the constant >= 0)"""
    return l.const >= 0 and all(c >= 0 for _, c in l.terms)


def range_bounds(call: ast.AST, resolve=None) -> Tuple[Lin, Lin]:
    """range(a) / range(a, b) -> [lo, hi)"""
    if not (isinstance(call, ast.Call) and dotted(call.func) == "range" and 1 <= len(call.args) <= 2 and not call.keywords):
        raise ZUnsupported(f"not a counted loop: {norm(call)}")
    if len(call.args) == 1:
        return Lin.num(0), to_lin(call.args[0], resolve)
    return to_lin(call.args[0], resolve), to_lin(call.args[1], resolve)


def pair_domain(outer: ast.For, inner: ast.For, n: Lin, resolve=None) -> str:
    """classify a two-level loop nest over slots 0..n-1:
       'pairs'  every unordered pair of distinct slots exactly once
       'pairs+diag' / 'rect' / 'partial:<why>' otherwise"""
    if not (isinstance(outer.target, ast.Name) and isinstance(inner.target, ast.Name)):
        raise ZUnsupported("loop targets are not simple names")
    a, b = outer.target.id, inner.target.id
    lo_a, hi_a = range_bounds(outer.iter, resolve)
    # the inner bounds may mention the outer variable: do not resolve it
    res2 = (lambda nm: None if nm == a else (resolve(nm) if resolve else None))
    lo_b, hi_b = range_bounds(inner.iter, res2)
    A = Lin.atom(a)
    full_outer = lo_a == Lin.num(0) and hi_a == n
    if lo_b == Lin.num(0) and hi_b == A:
        return "pairs" if full_outer else f"partial:outer range is [{lo_a},{hi_a}) instead of [0,{n})"
    if lo_b == A + Lin.num(1) and hi_b == n:
        ok_outer = lo_a == Lin.num(0) and (hi_a == n or hi_a == n - Lin.num(1))
        return "pairs" if ok_outer else f"partial:outer range is [{lo_a},{hi_a})"
    if lo_b == Lin.num(0) and hi_b == A + Lin.num(1) and full_outer:
        return "pairs+diag"
    if lo_b == A and hi_b == n and full_outer:
        return "pairs+diag"
    if lo_b == Lin.num(0) and hi_b == n and full_outer:
        return "rect"
    return f"partial:inner range [{lo_b},{hi_b}) with outer [{lo_a},{hi_a})"


Box = Tuple[Tuple[Lin, Lin], Tuple[Lin, Lin]]      # ((row lo, row hi), (col lo, col hi))  half-open


def box_contains(big: Box, small: Box) -> bool:
    for (bl, bh), (sl, sh) in zip(big, small):
        if not (nonneg(sl - bl) and nonneg(bh - sh)):
            return False
    return True
